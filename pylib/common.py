"""Shared driver machinery: builds, sharded execution with crash attribution,
evidence files, violation / known-finding reporting.

Verdicts are three-valued: violation (exit 1), held (exit 0), inconclusive
(recorded in evidence; a check whose monitors observed nothing exits 2)."""

import json
import os
import random
import resource
import shutil
import subprocess
import sys
import time
from concurrent.futures import ThreadPoolExecutor

VERIF = os.path.dirname(os.path.dirname(os.path.abspath(__file__)))
REPO = "/repo"
HARNESS = os.path.join(VERIF, "harness")
TARGET = os.path.join(VERIF, "target")
WORK = os.path.join(VERIF, "work")
NCPU = os.cpu_count() or 4

BASE_ENV = dict(os.environ)
BASE_ENV["CARGO_NET_OFFLINE"] = "true"
BASE_ENV.pop("RUSTFLAGS", None)


def seed():
    try:
        return int(os.environ.get("VERIF_SEED", "1"))
    except ValueError:
        return 1


def tscale(n):
    """Thorough-tier workload size; VERIF_THOROUGH_SCALE (default 1) shrinks it to validate the plumbing of all flavors quickly."""
    try:
        f = float(os.environ.get("VERIF_THOROUGH_SCALE", "1"))
    except ValueError:
        f = 1.0
    return max(1, int(n * f))


def log(*a):
    print(*a, file=sys.stderr, flush=True)


# --------------------------------------------------------------------------
# builds

FLAVORS = {
    # name: (toolchain args, rustflags, cargo args, subdir of binary)
    "dbg": ([], "--cfg starlark_verif", [], "debug"),
    "rel": ([], "--cfg starlark_verif", ["--release"], "release"),
    "nightly": (["+nightly"], "--cfg starlark_verif", [], "debug"),
    "asan": (
        ["+nightly"],
        "--cfg starlark_verif -Zsanitizer=address -Cforce-frame-pointers=yes",
        ["--target", "x86_64-unknown-linux-gnu"],
        "x86_64-unknown-linux-gnu/debug",
    ),
    "tsan": (
        ["+nightly"],
        "--cfg starlark_verif -Zsanitizer=thread -Cforce-frame-pointers=yes",
        ["-Zbuild-std", "--target", "x86_64-unknown-linux-gnu"],
        "x86_64-unknown-linux-gnu/debug",
    ),
}

_built = {}


def target_dir(flavor):
    # dbg and rel share a target dir (different profile sub-directories)
    return os.path.join(TARGET, "std" if flavor in ("dbg", "rel") else flavor)


def ensure_lock():
    lock = os.path.join(HARNESS, "Cargo.lock")
    if not os.path.exists(lock):
        shutil.copy(os.path.join(REPO, "Cargo.lock"), lock)


def build(flavor, package=None, bins=None):
    """Build the harness against /repo's current working tree. Returns the bin directory.
    Raises BuildError when the build fails (mutated tree that does not compile = harness error)."""
    key = (flavor, package)
    if key in _built:
        return _built[key]
    tc, rustflags, cargs, sub = FLAVORS[flavor]
    ensure_lock()
    env = dict(BASE_ENV)
    env["RUSTFLAGS"] = rustflags
    env["CARGO_TARGET_DIR"] = target_dir(flavor)
    cmd = ["cargo"] + tc + ["build", "--offline"] + cargs
    if package:
        cmd += ["-p", package]
    t0 = time.time()
    for attempt in range(2):
        p = subprocess.run(cmd, cwd=HARNESS, env=env, stdout=subprocess.PIPE, stderr=subprocess.STDOUT, text=True)
        if p.returncode == 0:
            break
        if attempt == 0 and ("Cargo.lock" in p.stdout or "lock file" in p.stdout):
            shutil.copy(os.path.join(REPO, "Cargo.lock"), os.path.join(HARNESS, "Cargo.lock"))
            continue
        tail = "\n".join(p.stdout.splitlines()[-60:])
        raise BuildError("build of flavor %s failed:\n%s" % (flavor, tail))
    log("[build] %s ok in %.1fs" % (flavor, time.time() - t0))
    d = os.path.join(target_dir(flavor), sub)
    _built[key] = d
    return d


class BuildError(Exception):
    pass


# --------------------------------------------------------------------------
# sharded execution of svh-style batch runners


def _limits(mem_gb, cpu_s=None):
    def f():
        lim = mem_gb << 30
        try:
            resource.setrlimit(resource.RLIMIT_AS, (lim, lim))
        except Exception:
            pass
        resource.setrlimit(resource.RLIMIT_CORE, (0, 0))
        if cpu_s:
            # CPU seconds, not wall clock: independent of machine load (SIGXCPU = signal 24 at the soft limit)
            resource.setrlimit(resource.RLIMIT_CPU, (cpu_s, cpu_s + 5))

    return f


class Batch:
    """Result of running a list of cases: events per case id, crashes, inconclusive."""

    def __init__(self):
        self.events = {}  # id -> list of events
        self.crashes = []  # dict(id, status, stderr, confirmed)
        self.inconclusive = []  # dict(id, why)
        self.wall = 0.0


def workdir(name):
    d = os.path.join(WORK, name)
    shutil.rmtree(d, ignore_errors=True)
    os.makedirs(d, exist_ok=True)
    return d


def _run_proc(binary, mode, infile, outfile, opts, timeout, mem_gb, env_extra, asan_like, prefix=None, cpu_s=None):
    env = dict(BASE_ENV)
    env["RUST_BACKTRACE"] = "0"
    if env_extra:
        env.update(env_extra)
    cmd = (prefix or []) + [binary, mode, infile, outfile] + ["%s=%s" % kv for kv in sorted(opts.items())]
    try:
        p = subprocess.run(
            cmd,
            env=env,
            stdout=subprocess.PIPE,
            stderr=subprocess.PIPE,
            timeout=timeout,
            preexec_fn=None if asan_like else _limits(mem_gb, cpu_s),
        )
        err = p.stderr.decode("utf-8", "replace")
        if len(err) > 9000:
            err = err[:2500] + "\n[...]\n" + err[-6000:]  # sanitizer reports put the verdict line first
        return p.returncode, err
    except subprocess.TimeoutExpired as e:
        err = (e.stderr or b"").decode("utf-8", "replace")[-2000:]
        return "timeout", err


def _read_out(outfile):
    res = {}
    started = []
    done = False
    if not os.path.exists(outfile):
        return res, started, done
    with open(outfile, "r", encoding="utf-8", errors="replace") as f:
        for line in f:
            line = line.strip()
            if not line:
                continue
            try:
                j = json.loads(line)
            except Exception:
                continue
            if "start" in j:
                started.append(j["start"])
            elif "done" in j:
                done = True
            elif "id" in j:
                res[j["id"]] = j["ev"]
    return res, started, done


def run_cases(
    binary,
    mode,
    cases,
    name,
    opts=None,
    shards=None,
    timeout=600,
    mem_gb=8,
    env_extra=None,
    asan_like=False,
    confirm_crashes=True,
    per_case_timeout=60,
    prefix=None,
    cpu_limit_alone=None,
):
    """Run `cases` (dicts with unique 'id') through `binary mode`, sharded over processes.
    A process that dies is attributed to the first started-but-unfinished case; that case is
    re-run alone to confirm, and the rest of the shard continues in a new process."""
    opts = dict(opts or {})
    # wall-clock watchdog inside the runner: a case that takes this long ends the process and is re-run alone
    # (never a verdict by itself; without it a hanging case blocks its shard until the shard timeout)
    opts.setdefault("case_timeout_s", "600")
    shards = shards or min(NCPU, max(1, len(cases) // 8))
    wd = workdir(name)
    batch = Batch()
    t0 = time.time()
    parts = [cases[i::shards] for i in range(shards)]

    def run_shard(si):
        part = parts[si]
        evs = {}
        crashes = []
        inconc = []
        rnd = 0
        while part:
            rnd += 1
            infile = os.path.join(wd, "in_%d_%d.jsonl" % (si, rnd))
            outfile = os.path.join(wd, "out_%d_%d.jsonl" % (si, rnd))
            with open(infile, "w") as f:
                for c in part:
                    f.write(json.dumps(c) + "\n")
            rc, err = _run_proc(binary, mode, infile, outfile, opts, timeout, mem_gb, env_extra, asan_like, prefix)
            res, started, done = _read_out(outfile)
            evs.update(res)
            if done and rc == 0:
                break
            # attribute
            bad = None
            for s in started:
                if s not in res:
                    bad = s
                    break
            if bad is None:
                # died before/after all cases: harness-level problem
                inconc.append({"id": None, "why": "runner exited %r without a culprit: %s" % (rc, err[-400:])})
                break
            idx = [i for i, c in enumerate(part) if c["id"] == bad][0]
            culprit = part[idx]
            part = part[idx + 1 :]
            if rc == "timeout" and len(started) > 1:
                # the shard timeout is not a per-case verdict; re-run the culprit alone below
                pass
            # confirm alone
            confirmed = None
            if confirm_crashes:
                cin = os.path.join(wd, "cin_%d_%d.jsonl" % (si, rnd))
                cout = os.path.join(wd, "cout_%d_%d.jsonl" % (si, rnd))
                with open(cin, "w") as f:
                    f.write(json.dumps(culprit) + "\n")
                opts_alone = {k: v for k, v in opts.items() if k != "case_timeout_s"}  # alone: no wall-clock watchdog
                rc2, err2 = _run_proc(binary, mode, cin, cout, opts_alone, per_case_timeout, mem_gb, env_extra, asan_like, prefix, cpu_s=cpu_limit_alone)
                res2, _, done2 = _read_out(cout)
                if done2 and rc2 == 0:
                    # not reproducible alone
                    evs.update(res2)
                    inconc.append({"id": bad, "why": "runner died (%r) in batch but case passes alone" % (rc,), "stderr": err[-1500:]})
                    continue
                confirmed = {"rc": rc2, "stderr": err2[:1500] + err2[-3000:] if len(err2) > 4500 else err2}
                if rc2 == "timeout":
                    inconc.append({"id": bad, "why": "timeout alone (%ss)" % per_case_timeout})
                    continue
                if _is_oom(rc2, err2):
                    inconc.append({"id": bad, "why": "allocation failure / address-space limit", "stderr": err2[-500:]})
                    continue
            crashes.append({"id": bad, "rc": rc, "stderr": err[:1500] + err[-3000:] if len(err) > 4500 else err, "confirm": confirmed, "case": culprit})
        return evs, crashes, inconc

    with ThreadPoolExecutor(max_workers=min(shards, NCPU)) as ex:
        for evs, crashes, inconc in ex.map(run_shard, range(shards)):
            batch.events.update(evs)
            batch.crashes.extend(crashes)
            batch.inconclusive.extend(inconc)
    batch.wall = time.time() - t0
    return batch


def _is_oom(rc, err):
    e = err.lower()
    return (
        "memory allocation of" in e
        or "out of memory" in e
        or "allocator is out of memory" in e
        or "cannot allocate memory" in e
        or "capacity overflow" in e and False
    )


# --------------------------------------------------------------------------
# reporting


class Report:
    def __init__(self, prop, tier):
        self.prop = prop
        self.tier = tier
        self.t0 = time.time()
        self.violations = []  # dict(signature, what, replay)
        self.known = []
        self.inconclusive = []
        self.coverage = {}
        self.assumptions = []
        self._known_db = load_known(prop)
        self._nrep = 0
        # replay files of earlier runs of this check/tier are stale
        d = os.path.join(VERIF, "replays", prop)
        if os.path.isdir(d):
            for f in os.listdir(d):
                if f.startswith(tier + "_"):
                    try:
                        os.remove(os.path.join(d, f))
                    except OSError:
                        pass

    def violation(self, signature, what, witness):
        """signature: stable identifier of the failing input/site (used for known findings)."""
        for k in self._known_db:
            if k.get("status", "open") == "open" and k["signature"] == signature:
                if not any(x["signature"] == signature for x in self.known):
                    self.known.append({"signature": signature, "what": k["what"]})
                return False
        if any(v["signature"] == signature for v in self.violations):
            return True
        if len(self.violations) >= 25:
            return True
        d = os.path.join(VERIF, "replays", self.prop)
        os.makedirs(d, exist_ok=True)
        self._nrep += 1
        path = os.path.join(d, "%s_%s_%d.json" % (self.tier, safe(signature)[:60], self._nrep))
        with open(path, "w") as f:
            json.dump({"property": self.prop, "signature": signature, "what": what, "witness": witness}, f, indent=1)
        self.violations.append({"signature": signature, "what": what, "replay": path})
        return True

    def inconc(self, why, detail=None):
        self.inconclusive.append({"why": why, "detail": detail})

    def finish(self, level="exploration", sanity_ok=True, sanity_msg=""):
        cov = dict(self.coverage)
        cov.setdefault("evaluations", 0)
        cov.setdefault("distinct_nontrivial", 0)
        cov.setdefault("rule", "")
        cov.setdefault("samples", [])
        cov["inconclusive"] = self.inconclusive[:20]
        cov["inconclusive_count"] = len(self.inconclusive)
        cov["known_findings_seen"] = self.known
        ev = {
            "property_id": self.prop,
            "tier": self.tier,
            "seed": seed(),
            "level": level,
            "coverage": cov,
            "assumptions": self.assumptions,
            "wall_s": round(time.time() - self.t0, 2),
            "violations": len(self.violations),
        }
        os.makedirs(os.path.join(VERIF, "evidence"), exist_ok=True)
        with open(os.path.join(VERIF, "evidence", self.prop + ".json"), "w") as f:
            json.dump(ev, f, indent=1, sort_keys=True)
        for k in self.known:
            print("KNOWN-FINDING: property=%s %s" % (self.prop, k["what"]))
        for v in self.violations:
            print("VIOLATION property=%s replay=%s" % (self.prop, v["replay"]))
            log("   ", v["what"][:400])
        if self.violations:
            sys.stdout.flush()
            sys.exit(1)
        if not sanity_ok:
            log("SANITY GATE FAILED (harness error, not a verdict): " + sanity_msg)
            sys.exit(2)
        log(
            "[%s/%s] held on %d evaluations (%d distinct non-trivial), %d inconclusive, %.1fs"
            % (self.prop, self.tier, cov["evaluations"], cov["distinct_nontrivial"], len(self.inconclusive), time.time() - self.t0)
        )
        sys.exit(0)


def safe(s):
    return "".join(c if c.isalnum() or c in "-_." else "_" for c in s)


def load_known(prop):
    p = os.path.join(VERIF, "known_findings.jsonl")
    out = []
    if os.path.exists(p):
        with open(p) as f:
            for line in f:
                line = line.strip()
                if not line or line.startswith("#") or line.startswith("fixed:"):
                    continue
                j = json.loads(line)
                if j.get("property") == prop:
                    out.append(j)
    return out


def is_oom_text(msg):
    """Allocation failure (address-space limit) is outside every property's quantifier: inconclusive, never a violation."""
    m = (msg or "").lower()
    return ("out of memory" in m or "memory allocation of" in m or "cannot allocate" in m or "capacity overflow" in m
            or "alignedsize must not exceed" in m)  # single object larger than the heap's maximum object size (4 GiB)


def crash_signature(cr):
    """Stable-ish signature for a crash: signal/exit + first in-repo frame or message."""
    err = (cr.get("confirm") or {}).get("stderr") or cr.get("stderr") or ""
    key = ""
    for line in err.splitlines():
        l = line.strip()
        if "panicked at" in l or "ERROR: AddressSanitizer" in l or "SUMMARY:" in l or "fatal runtime error" in l:
            key = l
            break
    rc = (cr.get("confirm") or {}).get("rc", cr.get("rc"))
    return "crash:%s:%s" % (rc, key[:120])


def rng(*salt):
    return random.Random("%d/%s" % (seed(), "/".join(str(s) for s in salt)))
