"""C10: integer arithmetic is exact at every magnitude.
Oracle: CPython arbitrary-precision ints. Each operation is executed in literal (foldable) and runtime
(opaque) form; host conversions are exercised through harness natives."""
import json
import os
import random
import struct

import common
from common import NCPU, Report, log, seed

BINOPS = ["+", "-", "*", "//", "%", "&", "|", "^", "<<", ">>"]
CMPOPS = ["==", "!=", "<", "<=", ">", ">="]
HOST = {
    "i32": (-(2**31), 2**31 - 1), "u32": (0, 2**32 - 1), "i64": (-(2**63), 2**63 - 1), "u64": (0, 2**64 - 1),
    "usize": (0, 2**64 - 1), "isize": (-(2**63), 2**63 - 1), "big": (None, None),
}


def grid(ks):
    g = {0, 1, -1, 2, -2}
    for k in ks:
        for d in (-2, -1, 0, 1, 2):
            g.add(2**k + d)
            g.add(-(2**k) + d)
    return sorted(g)


def py_bin(op, a, b):
    try:
        if op == "+":
            return ("ok", a + b)
        if op == "-":
            return ("ok", a - b)
        if op == "*":
            return ("ok", a * b)
        if op == "//":
            return ("ok", a // b)
        if op == "%":
            return ("ok", a % b)
        if op == "&":
            return ("ok", a & b)
        if op == "|":
            return ("ok", a | b)
        if op == "^":
            return ("ok", a ^ b)
        if op == "<<":
            return ("ok", a << b)
        if op == ">>":
            return ("ok", a >> b)
        if op == "==":
            return ("ok", a == b)
        if op == "!=":
            return ("ok", a != b)
        if op == "<":
            return ("ok", a < b)
        if op == "<=":
            return ("ok", a <= b)
        if op == ">":
            return ("ok", a > b)
        if op == ">=":
            return ("ok", a >= b)
    except ZeroDivisionError:
        return ("err", "zero")
    except ValueError:
        return ("err", "negshift")
    raise AssertionError(op)


def lit(n):
    return "(%d)" % n


def opq(n):
    return "opaque(%d)" % n


def to_base(n, b):
    digits = "0123456789abcdefghijklmnopqrstuvwxyz"
    if n == 0:
        return "0"
    s, m = "", abs(n)
    while m:
        s = digits[m % b] + s
        m //= b
    return ("-" if n < 0 else "") + s


def fbits(x):
    return "f%016x" % struct.unpack(">Q", struct.pack(">d", x))[0]


def enc(v):
    if v is True or v is False:
        return v
    if isinstance(v, int):
        return "i%d" % v
    if isinstance(v, str):
        return "s" + v
    if isinstance(v, float):
        return fbits(v)
    raise AssertionError(v)


def build_ops(tier, s):
    """Returns list of (expr_text, expected) where expected = ("ok", encoded) | ("err", cls) ; plus description."""
    rng = random.Random("%d/c10" % s)
    ops = []
    full = tier == "thorough"
    ks = [7, 15, 16, 30, 31, 32, 33, 52, 53, 54, 62, 63, 64, 65, 127, 128] if full else [16, 31, 32, 33, 53, 63, 64, 65]
    G = grid(ks)
    shifts = [g for g in G if -2 <= g <= 200] + [3, 31, 32, 33, 63, 64, 65, 100, 200]
    shifts = sorted(set(shifts))

    def both(fmt, args, exp, tag):
        def sub(f):
            t = fmt
            for i, a in enumerate(args):
                t = t.replace("@%d" % i, f(a))
            return t
        ops.append((sub(lit), exp, tag + "/lit"))
        ops.append((sub(opq), exp, tag + "/rt"))

    for a in G:
        for b in G:
            for op in BINOPS:
                if op in ("<<", ">>"):
                    continue
                exp = py_bin(op, a, b)
                both("@0 " + op + " @1", (a, b), exp if exp[0] == "err" else ("ok", enc(exp[1])), "grid" + op)
            for op in CMPOPS:
                both("@0 " + op + " @1", (a, b), ("ok", enc(py_bin(op, a, b)[1])), "gridcmp")
        for b in shifts:
            for op in ("<<", ">>"):
                exp = py_bin(op, a, b)
                both("@0 " + op + " @1", (a, b), exp if exp[0] == "err" else ("ok", enc(exp[1])), "grid" + op)
        # unary, builtins, conversions, formatting
        both("-@0", (a,), ("ok", enc(-a)), "neg")
        both("+@0", (a,), ("ok", enc(+a)), "pos")
        both("~@0", (a,), ("ok", enc(~a)), "inv")
        both("abs(@0)", (a,), ("ok", enc(abs(a))), "abs")
        both("str(@0)", (a,), ("ok", enc(str(a))), "str")
        both("repr(@0)", (a,), ("ok", enc(repr(a))), "repr")
        both("bool(@0)", (a,), ("ok", enc(bool(a))), "bool")
        both('"%d" % @0', (a,), ("ok", enc("%d" % a)), "fmt%d")
        both('"%x" % @0', (a,), ("ok", enc("%x" % a)), "fmt%x")
        both('"%X" % @0', (a,), ("ok", enc("%X" % a)), "fmt%X")
        both('"%o" % @0', (a,), ("ok", enc("%o" % a)), "fmt%o")
        both('"{}".format(@0)', (a,), ("ok", enc("{}".format(a))), "format")
        both('"<%s>" % @0', (a,), ("ok", enc("<%s>" % a)), "fmt%s")
        ops.append(('int("%d")' % a, ("ok", enc(a)), "int(str)"))
        ops.append(('int(opaque("%d"))' % a, ("ok", enc(a)), "int(str)/rt"))
        for base in (2, 8, 10, 16, 36, rng.randint(3, 35)):
            sv = to_base(a, base)
            if rng.random() < 0.5:
                sv = sv.upper()
            ops.append(('int("%s", %d)' % (sv, base), ("ok", enc(a)), "int(str,base)"))
        for pre, base in (("0x", 16), ("0o", 8), ("0b", 2)):
            sv = to_base(abs(a), base)
            sign = "-" if a < 0 else ""
            ops.append(('int("%s%s%s", 0)' % (sign, pre, sv), ("ok", enc(a)), "int(str,0)"))
            ops.append(('int("%s%s%s", %d)' % (sign, pre, sv, base), ("ok", enc(a)), "int(prefixed,base)"))
        if abs(a) < 2**1000:
            both("float(@0)", (a,), ("ok", enc(float(a))), "float(int)")
        fa = float(a)
        if abs(a) < 2**200:
            ops.append(("int(%r)" % fa, ("ok", enc(int(fa))), "int(float)"))
            ops.append(("int(opaque(%r))" % fa, ("ok", enc(int(fa))), "int(float)/rt"))
            ops.append(("int(%r)" % (fa + 0.5), ("ok", enc(int(fa + 0.5))), "int(float)"))
            ops.append(("int(%r)" % (fa - 0.5), ("ok", enc(int(fa - 0.5))), "int(float)"))
        # host conversions
        for kind, (lo, hi) in HOST.items():
            inr = lo is None or lo <= a <= hi
            exp = ("ok", ["t", "sok", enc(a)]) if inr else ("ok", ["t", "sno"])
            ops.append(('host_roundtrip("%s", %d)' % (kind, a), exp, "host_unpack/" + kind))
            ops.append(('host_roundtrip("%s", opaque(%d) + 0)' % (kind, a), exp, "host_unpack/rt/" + kind))
            if inr:
                ops.append(('str(host_alloc("%s", "%d"))' % (kind, a), ("ok", enc(str(a))), "host_alloc/" + kind))
                ops.append(('host_alloc("%s", "%d") == %d' % (kind, a, a), ("ok", True), "host_alloc_eq/" + kind))
    # random operands up to 256 bits
    nrand = 400000 if full else 40000
    for _ in range(nrand // 2):
        bits = rng.choice([8, 31, 32, 33, 63, 64, 65, 100, 128, 200, 256])
        a = rng.getrandbits(bits) * rng.choice([1, -1])
        b = rng.getrandbits(rng.choice([8, 31, 32, 33, 63, 64, 65, 128, 256])) * rng.choice([1, -1])
        op = rng.choice(BINOPS + CMPOPS)
        if op in ("<<", ">>"):
            b = rng.randint(-1, 200)
        exp = py_bin(op, a, b)
        both("@0 " + op + " @1", (a, b), exp if exp[0] == "err" else ("ok", enc(exp[1])), "rand" + op)
    return ops


def star_result(ev):
    """ev = ["e", ["t","sok",X]] / ["t","serr","smsg"]"""
    v = ev[1]
    if not (isinstance(v, list) and v and v[0] == "t" and len(v) == 3):
        return ("bad", v)
    if v[1] == "sok":
        return ("ok", v[2])
    m = v[2][1:].lower() if isinstance(v[2], str) else ""
    if "by zero" in m:
        return ("err", "zero", m)
    if "negative shift" in m or "negative" in m and "shift" in m:
        return ("err", "negshift", m)
    return ("err", "other", m)


def run(tier):
    rep = Report("C10", tier)
    s = seed()
    ops = build_ops(tier, s)
    log("[C10] %d operations" % len(ops))
    per = 1500
    cases = []
    for ci in range(0, len(ops), per):
        chunk = ops[ci:ci + per]
        src = "".join("emit(attempt(lambda: %s))\n" % e for e, _, _ in chunk)
        cases.append({"id": "b%d" % (ci // per), "cfg": {"dialect": "extended"}, "units": [{"file": "c10.star", "src": src}]})
    flavors = ["dbg"] if tier == "quick" else ["dbg", "rel"]
    agree = 0
    tags = {}
    errs_seen = {}
    samples = []
    distinct = set()
    for flavor in flavors:
        svh = os.path.join(common.build(flavor), "svh")
        batch = common.run_cases(svh, "run", cases, "c10_" + flavor, shards=NCPU, timeout=3000)
        for cr in batch.crashes:
            rep.violation(common.crash_signature(cr), "runner crashed in batch %s" % cr["id"], {"flavor": flavor, "crash": cr.get("confirm"), "case_id": cr["id"]})
        for inc in batch.inconclusive:
            rep.inconc(inc["why"], inc.get("id"))
        for c in cases:
            evs = batch.events.get(c["id"])
            if evs is None:
                continue
            ci = int(c["id"][1:]) * per
            emits = [e for e in evs if e[0] == "e"]
            other = [e for e in evs if e[0] not in ("e", "ctr", "r")]
            chunk = ops[ci:ci + per]
            if len(emits) != len(chunk):
                r = [e for e in evs if e[0] == "r"]
                rep.violation("c10:batch-incomplete", "batch %s produced %d results for %d operations: %s %s" % (c["id"], len(emits), len(chunk), json.dumps(r)[:300], json.dumps(other)[:300]),
                              {"flavor": flavor, "case": c})
                continue
            for (expr, exp, tag), ev in zip(chunk, emits):
                got = star_result(ev)
                ok = False
                if exp[0] == "ok":
                    ok = got[0] == "ok" and got[1] == exp[1]
                else:
                    ok = got[0] == "err" and (got[1] == exp[1] or got[1] == "other" and False)
                if got[0] == "err":
                    errs_seen[got[1]] = errs_seen.get(got[1], 0) + 1
                if ok:
                    agree += 1
                    tags[tag] = tags.get(tag, 0) + 1
                    distinct.add(expr if len(distinct) < 3_000_000 else "")
                    if len(samples) < 5 and ("rand" in tag or "host" in tag) and agree % 997 == 0:
                        samples.append({"expr": expr, "expected": exp, "tag": tag})
                else:
                    kind = tag.split("/")[0]
                    rep.violation("c10:%s:%s" % (kind, _shape(expr)), "[%s] %s -> starlark %s, exact arithmetic says %s" % (flavor, expr, json.dumps(got)[:200], json.dumps(exp)[:200]),
                                  {"flavor": flavor, "expr": expr, "expected": exp, "got": got})
    rep.coverage = {
        "evaluations": agree + len(rep.violations),
        "distinct_nontrivial": len(distinct),
        "rule": "evaluation = one integer operation evaluated by starlark-rust (inside attempt(lambda: ...)) and compared with CPython's exact result; literal and runtime (opaque) forms are separate evaluations; distinct = distinct expression texts",
        "samples": samples or [{"expr": ops[0][0], "expected": ops[0][1]}],
        "per_kind": tags,
        "error_results_seen": errs_seen,
        "flavors": flavors,
        "exhaustive": False,
        "grid_pairs_complete": True,
    }
    rep.assumptions = ["CPython ints are the exact-arithmetic reference", "shift counts restricted to [-2, 200]; float conversions to |x| < 2^1000"]
    rep.finish(sanity_ok=agree > 1000 and errs_seen.get("zero", 0) > 0, sanity_msg="no operations compared / no division by zero observed")


def _shape(expr):
    import re
    return re.sub(r"-?[0-9]+", "N", expr)[:60]


def replay(rep):
    w = rep["witness"]
    svh = os.path.join(common.build(w.get("flavor", "dbg")), "svh")
    c = {"id": "r", "cfg": {"dialect": "extended"}, "units": [{"file": "c10.star", "src": "emit(attempt(lambda: %s))\n" % w["expr"]}]}
    batch = common.run_cases(svh, "run", [c], "c10_replay", shards=1)
    print(w["expr"], "expected", w["expected"])
    print(json.dumps(batch.events.get("r")))
    got = star_result([e for e in batch.events["r"] if e[0] == "e"][0])
    exp = w["expected"]
    ok = (got[0] == "ok" and got[1] == exp[1]) if exp[0] == "ok" else (got[0] == "err" and got[1] == exp[1])
    return 0 if ok else 1
