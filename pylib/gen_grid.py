"""Small-scope exhaustive grids over the builtin functions and methods of the Python-shared core (C01 leg):
every expression is evaluated by CPython and by starlark-rust; ok/err must agree and, when ok, the value."""
import itertools

S = ["", "a", "abc", "abcabc", "a,b,,c", " a b ", "Hello World", "aaa", "ab\ncd\n", "xyz", "  ", "AbC1"]
SUB = ["", "a", "b", "bc", "abc", ",", " ", "z", "aa", "c,"]
IDX = [None, 0, 1, 2, 3, -1, -2, -4, 5, 100, -100]
SMALL = [None, 0, 1, 2, -1, -2, 7]
L = ["[]", "[1]", "[1, 2, 3]", "[3, 1, 2, 1, 3]", "[1, 2, 3, 4, 5, 6]"]
T = ["()", "(1,)", "(1, 2, 3)", "(3, 1, 2, 1)"]


def q(s):
    return '"' + s.replace("\\", "\\\\").replace('"', '\\"').replace("\n", "\\n") + '"'


def args(*xs):
    """Trailing None arguments are omitted; a None in the middle makes the combination invalid."""
    xs = list(xs)
    while xs and xs[-1] is None:
        xs.pop()
    if any(x is None for x in xs):
        return None
    return ", ".join(str(x) for x in xs)


def exprs():
    out = []
    add = out.append
    # --- string search methods with start/end
    for s in S:
        for sub in SUB:
            for m in ("find", "rfind", "index", "rindex", "count"):
                for a in IDX:
                    for b in ([None, 0, 2, -1, 4] if a is not None else [None]):
                        ar = args(q(sub), a, b)
                        if ar is not None:
                            add("%s.%s(%s)" % (q(s), m, ar))
            for m in ("startswith", "endswith"):
                add("%s.%s(%s)" % (q(s), m, q(sub)))
            add("(%s in %s)" % (q(sub), q(s)))
            for m in ("partition", "rpartition"):
                add("%s.%s(%s)" % (q(s), m, q(sub)))
            for mx in (None, -1, 0, 1, 2, 5):
                for m in ("split", "rsplit"):
                    ar = args(q(sub), mx)
                    add("%s.%s(%s)" % (q(s), m, ar))
            for new in ("", "x", "aa"):
                for cnt in (None, -1, 0, 1, 2):
                    add("%s.replace(%s)" % (q(s), args(q(sub), q(new), cnt)))
            for m in ("strip", "lstrip", "rstrip", "removeprefix", "removesuffix"):
                add("%s.%s(%s)" % (q(s), m, q(sub)))
        for m in ("strip", "lstrip", "rstrip", "upper", "lower", "title", "capitalize", "isalpha", "isdigit", "isalnum", "isupper", "islower", "isspace", "istitle", "split", "rsplit", "splitlines"):
            add("%s.%s()" % (q(s), m))
        add("%s.splitlines(True)" % q(s))
        for n in (-1, 0, 1, 3):
            add("(%s * %d)" % (q(s), n))
            add("(%d * %s)" % (n, q(s)))
        add("len(%s)" % q(s))
        add("bool(%s)" % q(s))
        for sep in ("", ",", "ab"):
            add("%s.join(%s.split())" % (q(sep), q(s)))
            add("%s.join([%s, %s])" % (q(sep), q(s), q("z")))
            add("%s.join(%s)" % (q(sep), "(%s,)" % q(s)))
        for t in S[:6]:
            for op in ("<", "<=", "==", "!=", ">", ">="):
                add("(%s %s %s)" % (q(s), op, q(t)))
    # --- indexing and slicing of sequences
    seqs = [q("abcde"), q(""), q("a"), "[1, 2, 3, 4, 5]", "[]", "(1, 2, 3)", "list(range(7))", "range(7)", "range(2, 20, 3)", "range(10, 0, -2)"]
    for sq in seqs:
        for i in (0, 1, 4, 5, -1, -5, -6, 100):
            add("%s[%d]" % (sq, i))
        for a in (None, -9, -2, 0, 1, 3, 9):
            for b in (None, -9, -2, 0, 1, 3, 9):
                for c in (None, 1, 2, -1, -2, 0, 3):
                    t = "%s:%s" % ("" if a is None else a, "" if b is None else b) + ("" if c is None else ":%d" % c)
                    if sq.startswith("range"):
                        add("list(%s[%s])" % (sq, t))
                    else:
                        add("%s[%s]" % (sq, t))
    # --- range
    for a in (-3, 0, 2, 5):
        for b in (None, -3, 0, 4, 10):
            for c in ([None] if b is None else [None, 1, 2, 3, -1, -2, 0]):
                r = "range(%s)" % args(a, b, c)
                add("list(%s)" % r)
                add("len(%s)" % r)
                for x in (-3, 0, 3, 4, 9):
                    add("(%d in %s)" % (x, r))
                add("%s.index(4)" % r) if False else None
                add("list(reversed(%s))" % r)
                add("bool(%s)" % r)
    # --- lists / tuples, non-mutating
    for l in L + T:
        for x in (1, 2, 3, 9):
            add("(%d in %s)" % (x, l))
            if l.startswith("["):
                for a in IDX[:9]:
                    for b in ([None, 0, 2, -1, 4] if a is not None else [None]):
                        ar = args(x, a, b)
                        if ar is not None:
                            add("%s.index(%s)" % (l, ar))
        for n in (-1, 0, 1, 2):
            add("(%s * %d)" % (l, n))
        add("len(%s)" % l)
        add("sorted(%s)" % l)
        add("sorted(%s, reverse=True)" % l)
        add("sorted(%s, key=lambda x: x %% 2)" % l)
        add("sorted(%s, key=lambda x: x %% 2, reverse=True)" % l)
        add("sorted(%s, key=lambda x: -x)" % l)
        add("list(reversed(%s))" % l)
        add("list(enumerate(%s))" % l)
        add("list(enumerate(%s, 5))" % l)
        add("list(zip(%s, %s))" % (l, q("abcd") if False else "[7, 8]"))
        add("list(zip(%s))" % l)
        add("min(%s)" % l)
        add("max(%s)" % l)
        add("min(%s, key=lambda x: x %% 2)" % l)
        add("max(%s, key=lambda x: x %% 2)" % l)
        add("any(%s)" % l)
        add("all(%s)" % l)
        add("bool(%s)" % l)
        add("str(%s)" % l)
        add("repr(%s)" % l)
        add("tuple(%s)" % l)
        add("list(%s)" % l)
        for m in L[:4] + T[:3]:
            if l[0] == m[0]:
                for op in ("<", "<=", "==", "!=", ">", ">=", "+"):
                    add("(%s %s %s)" % (l, op, m))
            else:
                add("(%s == %s)" % (l, m))
    add("list(zip([1, 2, 3], [4, 5], [6]))")
    add("list(zip())")
    add("min(3, 1, 2)")
    add("max(3, 1, 2, key=lambda x: -x)")
    add("min([])")
    add("max(())")
    # --- lists, mutating (observed through the list itself)
    for l in L:
        for i in (0, 1, 2, -1, -2, 5, -7, 100):
            add("(lambda l: [l.insert(%d, 9), l])(%s)" % (i, l))
        for i in (None, 0, 1, 2, 5):
            add("(lambda l: [l.pop(%s), l])(%s)" % ("" if i is None else i, l))
        for x in (1, 3, 9):
            add("(lambda l: [l.remove(%d), l])(%s)" % (x, l))
        add("(lambda l: [l.append(l[:]), l])(%s)" % l)
        add("(lambda l: [l.extend(l[:2]), l])(%s)" % l)
        add("(lambda l: [l.extend((7, 8)), l])(%s)" % l)
        add("(lambda l: [l.clear(), l])(%s)" % l)
    # --- dicts
    D = ["{}", "{\"a\": 1}", "{\"b\": 2, \"a\": 1}", "{1: \"x\", 2: \"y\", 3: \"z\"}"]
    for d in D:
        for k in ("\"a\"", "\"zz\"", "1", "9"):
            add("%s.get(%s)" % (d, k))
            add("%s.get(%s, 7)" % (d, k))
            add("(%s in %s)" % (k, d))
            add("(lambda d: [d.pop(%s, None), d])(%s)" % (k, d))
            add("(lambda d: [d.pop(%s), d])(%s)" % (k, d))
            add("(lambda d: [d.setdefault(%s, 5), d])(%s)" % (k, d))
            add("(lambda d: [d.setdefault(%s), d])(%s)" % (k, d))
            add("%s[%s]" % (d, k))
        add("list(%s.keys())" % d)
        add("list(%s.values())" % d)
        add("list(%s.items())" % d)
        add("len(%s)" % d)
        add("bool(%s)" % d)
        add("list(%s)" % d)
        add("sorted(%s)" % d)
        add("(lambda d: [d.update({\"a\": 9, \"n\": 8}), d])(%s)" % d)
        add("(lambda d: [d.update([(\"n\", 8), (\"a\", 9)]), d])(%s)" % d)
        add("(lambda d: [d.update(a=9, n=8), d])(%s)" % d)
        add("(lambda d: [d.update([(\"n\", 8)], a=9), d])(%s)" % d)
        add("(lambda d: [d.clear(), d])(%s)" % d)
        add("dict(%s)" % d)
        add("dict(%s, k=1)" % d)
        add("(%s == dict(%s))" % (d, d))
        add("(%s | {\"a\": 5, \"q\": 6})" % d)
        add("(lambda d: [d.popitem(), d])(%s)" % d) if False else None
    add("dict([(1, 2), (3, 4)])")
    add("dict([(1, 2), (1, 4)])")
    add("dict(a=1, b=2)")
    add("dict([(1, 2)], a=3)")
    add("dict([1, 2])")
    add("dict(zip([1, 2, 3], \"abc\".split()))")
    add("{k: v for k, v in [(1, 2), (1, 3), (2, 4)]}")
    add("[x * y for x in [1, 2, 3] for y in [10, 20] if (x + y) % 2]")
    add("[[y for y in range(x)] for x in range(4)]")
    # --- formatting
    for fmt, arg in [("%s", "1"), ("%s", "\"a\""), ("%s", "[1, 2]"), ("%s %s", "(1, 2)"), ("%s %s", "(1,)"), ("%s", "(1, 2)"), ("%d", "3"), ("%d", "-3"), ("%d", "\"3\""), ("%x", "255"), ("%X", "255"),
                     ("%o", "8"), ("%x", "-255"), ("%c", "65"), ("%c", "\"A\""), ("%%", "()"), ("%%%s", "1"), ("%s%%", "1"), ("a%sb%sc", "(1, 2)"), ("%", "1"), ("%z", "1"), ("%s", "()"),
                     ("%(a)s", "{\"a\": 1}"), ("%(a)s %(b)s", "{\"a\": 1, \"b\": 2}"), ("%(a)s", "{\"b\": 1}"), ("no", "()"), ("no", "1"), ("%r", "1"), ("%r %r", "(1, [2])"), ("%5d", "3") if False else ("%d", "0"),
                     ("%s", "None"), ("%s", "True"), ("%d", "True")]:
        add("(%s %% %s)" % (q(fmt), arg))
    for fmt, arg in [("{}", "1"), ("{} {}", "1, 2"), ("{1} {0}", "1, 2"), ("{0} {0}", "1"), ("{a}", "a=1"), ("{a} {}", "2, a=1"), ("{} {1}", "1, 2"), ("{}", ""), ("{0}", ""), ("{a}", "b=1"), ("{{}}", ""),
                     ("{{{}}}", "1"), ("{", "1"), ("}", "1"), ("{!r}", "1"), ("{!s}", "[1]"), ("{} {}", "1"), ("{}", "1, 2"), ("{0.x}", "1") if False else ("{}", "None"), ("{a}{a}", "a=[1]")]:
        add("%s.format(%s)" % (q(fmt), arg))
    # --- conversions and small builtins
    for x in ["0", "1", "-1", "12", "True", "False", "None", "\"\"", "\"12\"", "\" 12 \"", "\"-0\"", "\"+5\"", "\"1_0\"", "\"0x10\"", "\"a\"", "\"1.5\"", "[]", "[0]", "()", "{}", "{0: 0}"]:
        for f in ("int", "bool", "str", "len", "list", "tuple", "abs", "repr"):
            if f in ("str", "repr") and x.startswith("\""):
                continue  # quote style of str repr differs by design
            add("%s(%s)" % (f, x))
    for x, b in [("\"10\"", 2), ("\"10\"", 8), ("\"10\"", 16), ("\"ff\"", 16), ("\"0xff\"", 16), ("\"0b11\"", 2), ("\"0o17\"", 8), ("\"z\"", 36), ("\"11\"", 0), ("\"0x11\"", 0), ("\"011\"", 0), ("\"12\"", 2), ("\"\"", 10), ("\"-ff\"", 16), ("\"10\"", 1), ("\"10\"", 37)]:
        add("int(%s, %d)" % (x, b))
    for n in (0, 65, 97, 127, -1, 1114111, 1114112):
        add("chr(%d)" % n) if n < 128 else add("len(chr(%d))" % n)
    for s in ("\"a\"", "\"\"", "\"ab\"", "\"A\""):
        add("ord(%s)" % s)
    for a in (-7, -1, 0, 1, 7):
        for b in (-3, -1, 1, 2, 0):
            for op in ("//", "%"):
                add("(%d %s %d)" % (a, op, b))
    return [e for e in out if e and not outside_shared_subset(e)]


def outside_shared_subset(e):
    """Documented / by-design differences between Starlark (this implementation) and Python, excluded from the grid."""
    import re
    if re.search(r"\.replace\(.*, -\d+\)$", e):
        return True  # negative replace count: rejected
    if re.match(r"(list|tuple)\(\"", e):
        return True  # strings are not iterable
    if "%(" in e or "%c" in e:
        return True  # mapping keys and %c in % formatting are not supported
    if re.search(r"% (True|False)\)$", e) or e in ("abs(True)", "abs(False)"):
        return True  # bool is not an int
    if re.match(r"int\(\"( |0x|0b|0o)", e) or e in ('int("011", 0)',):
        return True  # int(): no surrounding whitespace; prefixes are recognised in base 10 and base 0 keeps leading zeros
    return False
