"""Regenerates /verif/MANIFEST.json from the table below (python3 pylib/manifest_gen.py)."""
import json
import os
import subprocess

VERIF = os.path.dirname(os.path.dirname(os.path.abspath(__file__)))

CHECKS = {
    "C01": dict(
        engine="svh",
        text="Differential execution against CPython 3 (the reference interpreter) of generated, terminating programs of the shared core, "
             "each in module-level and in-function form, successful and deliberately failing; the emitted-value transcript and the failure "
             "point (events before failure, line of the innermost frame, coarse class) must agree. Held on the programs generated.",
        note="trusted: CPython 3 as reference; the generator's whitelist of shared constructs (documented differences such as list.pop(-1), duplicate dict-literal keys, i32 index parameters are excluded and listed in DESIGN.md)",
        technique="differential transcript oracle vs reference interpreter over generated programs",
        ref="DESIGN.md section 3 C01"),
    "C02": dict(
        engine="svh",
        text="Metamorphic equivalence: each generated full-dialect program is executed as printed, with every literal operand hidden behind a native identity function, with every callee and method receiver hidden, with both, "
             "and with module-level names assigned twice; the same body in a function is executed unfrozen, frozen-and-loaded, and called from the host through eval_function. All transcripts (values, side-effect order, error message head) "
             "must equal the fully opacified variant, which the optimiser can do nothing with. Held on the (program, variant, mode) runs executed.",
        note="trusted: CPython's ast module as parser/printer for the rewrites (generated programs are in the common syntax); opaque() is invisible to the optimiser; call stacks and locations are not compared",
        technique="metamorphic equivalence monitor over opacifying rewrites x execution modes",
        ref="DESIGN.md section 3 C02"),
    "C03": dict(
        engine="svh",
        text="Each generated heap-heavy program (cyclic/aliased containers, closures, records, partials, bound methods, frozen loaded values, embedder-set variables, extra_value, several ASTs on one module, evaluations nested in native calls) "
             "runs under GC schedules never / default / every k-th safepoint (hook H1); sharing-sensitive transcripts must equal the no-GC run; every from-space is poisoned and quarantined (hook H2) so a "
             "missed root crashes or mis-encodes deterministically; ASan build in thorough. Held on the (program, schedule) pairs executed; evidence reports collections performed and bytes poisoned.",
        note="trusted: hooks H1/H2; collections can only be placed at safepoints the evaluator offers; identity of immutable values is not compared",
        technique="schedule-variation equivalence monitor + poisoned/quarantined arenas (runtime sanitizer hook) + ASan",
        ref="DESIGN.md section 3 C03"),
    "C13": dict(
        engine="svh",
        text="Random histories over frozen modules (load chains, re-exports, values inside containers, captured by functions and default arguments), owned handles (get_owned/map/add_to_heap, handles re-homed under fresh forwarding heaps), "
             "globals built from module values and modules built from globals, unfrozen importing modules, and drops in any order (biased to producer-first, some on other threads); after every operation every "
             "still-live object is re-observed (functions are called) and compared with its recorded content; every dying arena is poisoned and quarantined (H2); ASan build in thorough.",
        note="trusted: hook H2; the observation recorded at creation; FrozenModule/OwnedFrozen moved across threads through an unsafe Send wrapper in the harness",
        technique="conservation monitor over recorded histories + poisoned/quarantined arenas + ASan",
        ref="DESIGN.md section 3 C13"),
    "C04": dict(
        engine="svh",
        text="For every generated library module: encoding, hash, str and repr of every export are recorded just before freeze and compared with the frozen module; 1-3 importing modules (plus an importer of a re-exporting importer) "
             "run a generic walker over everything reachable from the loaded values and try the complete mutator catalogue on every container found - each attempt is validated by a control on an unfrozen shallow copy (must succeed and change it) "
             "and must then fail on the frozen container and change nothing; non-mutating operations must give the same results as on the copy; in a second round every well-formed attempt is repeated through the literal (constant-foldable) path to the container, written out as its own def in a fresh importer and in the library itself; finally every export is re-observed. Held on the libraries generated.",
        note="trusted: the walker (lists, tuples, dict keys/values, struct/record fields, depth 4); the catalogue of mutating operations in the walker source; self-containing values are excluded from the frozen-vs-copy comparison of non-mutating operations",
        technique="conservation monitor across freeze + fault-injection style mutation attempts with unfrozen controls",
        ref="DESIGN.md section 3 C04"),
    "C05": dict(
        engine="svh",
        text="Every input (token soups, random strings over the lexer alphabet incl. non-ASCII/astral/CR/NUL/BOM, single-to-triple token mutations and character-range damage of valid generated programs and of the repository's test cases, "
             "and a corpus of lexical corner cases: escapes, unterminated and prefixed strings, f-string braces, line continuations, deep nesting) is parsed under 6 dialects drawn as chains D<=D' from the 768-point lattice, inside catch_unwind; "
             "on success the whole public AST is walked asserting span containment, char boundaries, identifier/string-literal spans; on failure the error must have a message and a span inside the file on char boundaries and must render; "
             "for every comparable pair an input accepted under D must be accepted under D' with identical tree and spans. ASan build in thorough. Held on the inputs parsed.",
        note="trusted: the AST walker in harness/svh/src/parse.rs; nesting bounded to <=200; a single timeout is inconclusive; thorough adds a libFuzzer leg (harness/fz) driving the same oracle, whose artifacts are re-judged by the ordinary runner",
        technique="runtime assertion monitor (totality, span well-formedness, dialect monotonicity) over generated/mutated inputs + ASan + coverage-guided fuzzing of the same monitor (thorough)",
        ref="DESIGN.md section 3 C05"),
    "C06": dict(
        engine="svh",
        text="(a) For every text of the shared grammar - every ordered pair of the 21 binary operators in 21 syntactic contexts (exhaustive), all orders of up to 4 parameter / argument kinds (exhaustive), 400 statement/indentation/literal forms, and random "
             "expressions, statements and token-level mutations - accept/reject and the fully parenthesised canonical tree must equal CPython's; texts whose CPython tree needs a construct Starlark does not have are skipped and counted by reason. "
             "(b) every parseable module of the full dialect is printed, re-parsed (structurally equal, f-strings compared through their documented desugaring) and printed again (fixed point).",
        note="trusted: CPython's parser/compiler front end as the reference grammar; the list of intended differences encoded in pylib/ref_ast.py (chained comparison/assignment, positional after *args, unparenthesised tuple as statement / for-iterable / with trailing comma, tabs, numeric and string lexical forms)",
        technique="differential oracle vs reference parser over exhaustively enumerated operator/parameter contexts + print/parse round-trip monitor",
        ref="DESIGN.md section 3 C06"),
    "C07": dict(
        engine="svh",
        text="The callable inventory is read from the live tree (all globals + dir() of a value of every type); histories of 200 snippets callee(extreme arguments) / operators / indexing, wrapped in calls, lambdas, comprehensions and native callbacks, "
             "and scrambled (ill-typed) full-dialect programs are evaluated one after another on one module, with a fresh evaluator per item or one reused evaluator. Monitors: panic capture and child exit status (culprit found by bisection), "
             "no Internal errors, every error has a span inside an involved file and a resolvable call stack, call_stack_count()==0 after every item, and a fixed probe program evaluated on the same evaluator after every item must give its known result. "
             "ASan build in thorough. Held on the items evaluated.",
        note="trusted: the probe's expected result; allocation failure / timeouts are inconclusive; one open known finding (debug() of a self-containing value overflows the stack) keyed on its exact shape",
        technique="runtime assertion monitors over generated call histories (panic/abort capture, error well-formedness, reusability probe) + ASan",
        ref="DESIGN.md section 3 C07"),
    "C08": dict(
        engine="svh",
        text="All 579 legal signatures with up to 5 parameters over positional-only, positional-or-keyword, defaults, *args, bare *, keyword-only and **kwargs (quick: all with <=2 parameters + a seeded sample of 260, 140 call shapes each; thorough: all signatures, up to 700 call shapes each) x call shapes "
             "(0-4 positional, 0-3 named incl. unknown names, *seq of length 0-3, **map of size 0-3 with overlapping names) are bound by CPython and by starlark-rust on thirteen call paths: direct, through a variable, struct field, partial, "
             "frozen-and-loaded def, host eval_function, inlinable bodies called from an importer and locally, calls split across partial() (in module, frozen-and-loaded, from the host; a repeated pre-bound keyword must fail), native functions and natives through a variable; ok/fail and the tuple of bound values must agree. Held on the calls executed (the full product of call shapes and paths is sampled, not exhausted).",
        note="trusted: CPython's call binding as the statement of the call rules; messages are never compared; native coverage is a fixed family of 10 natives",
        technique="differential oracle vs reference call semantics over an enumerated signature x call-shape x call-path space",
        ref="DESIGN.md section 3 C08"),
    "C09": dict(
        engine="svh",
        text="The algebraic laws themselves are the oracle: reflexivity, symmetry, transitivity (through equivalence classes, i.e. all triples), "
             "agreement of ==, != and host Value::equals, equal => same hashability, same hash and interchangeable as dict keys / set members, "
             "trichotomy and transitivity of < per orderable type, agreement with Value::compare, and sorted() = ordered stable permutation; "
             "checked over all ordered pairs of a pool in which every abstract value is built through many representations and construction paths (also nested in hashable containers), "
             "unfrozen and frozen-and-loaded; every literal pool entry is additionally spelled out as a constant operand in ten comparison forms whose answers must equal the generic matrix. Held on the pool explored.",
        note="trusted: the law checker in pylib/c09.py; NaN excluded from order laws (IEEE unordered) but not from reflexivity; one open known finding (lossy int/float equality) is recognised by a value-based classifier",
        technique="runtime law monitor (algebraic properties) over all pairs/triples of a generated value pool",
        ref="DESIGN.md section 3 C09"),
    "C10": dict(
        engine="svh",
        text="Every integer operation on an exhaustive grid of boundary operand pairs (around 2^16..2^65 in quick, 2^7..2^128 in thorough) and on random operands up to 256 bits, "
             "each in literal (foldable) and runtime (opaque) form, plus string/base conversions, formatting, int<->float and host fixed-width conversions, "
             "is compared with CPython's exact integers. Held on the operations executed; the grid sub-space is complete for its stated bounds.",
        note="trusted: CPython ints; shift counts limited to [-2,200], float conversions to |x|<2^1000",
        technique="differential oracle vs exact reference arithmetic over exhaustive boundary grid + random operands",
        ref="DESIGN.md section 3 C10"),
    "C12": dict(
        engine="svh",
        text="Complete enumeration (13 800 snippets) of container kind x iterating construct x mutating operation x alias path x way of leaving the loop x nesting depth, "
             "each judged against the lock model 'locked <=> inside an iteration extent': every mutation attempt inside must fail and change nothing, every container must be mutable again after the extent ended; "
             "plus host-level cases (error escapes eval_module, second evaluation on the same module). Exhaustive for the stated catalogue.",
        note="trusted: the mutator catalogue (checked against dir() of the live tree; unknown methods are reported inconclusive); builtins that call back may legitimately have finished iterating; one open known finding (error exit never releases) keyed on its exact signature",
        technique="runtime model monitor (lock model) over an exhaustively enumerated scenario space",
        ref="DESIGN.md section 3 C12"),
    "C14": dict(
        engine="svh",
        text="The same batch of files (generated successful and failing programs, misspelled identifiers for did-you-mean suggestions, identity-sensitive templates printing functions/records/enums/partials/bound methods, dir(), mixed-key dicts and sets, hash(), json) "
             "is executed in K child processes differing in ASLR (setarch -R), seeded allocation / junk-heap noise before the batch, main vs spawned thread, batch order and per-process hash seeds; complete transcripts "
             "(prints, values, full error renderings with suggestions and call stacks, and - in typecheck mode - diagnostics, type map and lint output) are compared byte for byte with the reference child. Held on the files and children executed.",
        note="trusted: process-level variation as the source of layout/seed diversity; profiling and timing data are not part of the transcript",
        technique="cross-process transcript equality monitor under layout/seed/thread/order variation",
        ref="DESIGN.md section 3 C14"),
    "C15": dict(
        engine="svh",
        text="Limit model over measured quantities: (depth) 17 recursion shapes (direct, mutual, lambdas, comprehensions, sorted/map callbacks, partial, struct fields, kwargs/*args, inlinable wrappers, frozen defs) x limits {2,3,10,50,200(,1000)} x depths around each limit: "
             "the evaluator's own frame count D at the deepest point of an unlimited run decides - D<=limit must be unaffected, D>limit must fail with StackOverflow; unbounded recursion on 8 MiB and 2 MiB stacks must end with StackOverflow, not a crash; "
             "(ticks) tick counts of 7 loop/call structures are identical across runs and lie between structural bounds (iterations + calls), and with budgets placed around the measured N the run succeeds iff N<=B and fails within B+1000 ticks; "
             "(cancel) after cancel() the evaluation ends with an error within 1000 further iterations at 11 tick positions x 4 loop forms; (reuse) afterwards the call stack is empty and the probe works, and limit events repeated on the same evaluator (2-4 cancellations, three over-budget items) are honoured each time.",
        note="trusted: Evaluator::call_stack_count()/get_total_tick_count() as measuring devices; the documented check interval of 1000",
        technique="runtime limit-model monitor over enumerated (shape, limit, depth/budget/position) scenarios",
        ref="DESIGN.md section 3 C15"),
    "C16": dict(
        engine="svh",
        text="~520 type expressions (quick; all depth<=2 plus depth 3 in thorough) over Any, Never, None, the basic types, list/set/dict/tuple forms, fixed-arity tuples, unions of 2 and 3, Callable, Iterable, two records and two enums of equal shape, struct, range "
             "x 70 values (every builtin type, empty/heterogeneous/nested containers, records/enums of both declarations, callables of every kind) are checked on 9 paths (isinstance, host TypeCompiled::matches, parameter / *args / **kwargs / keyword-only annotations, annotated parameter default, return annotation, annotated local assignment), "
             "each unfrozen and with types, values and checking functions exported from a frozen module: all 18 answers must agree, and - where docs/types.md decides - equal an independent membership oracle.",
        note="trusted: the membership oracle member() in pylib/c16.py (float-vs-int, Callable-vs-enum-type, Iterable-vs-str/struct are left to agreement only); one open known finding (documented tuple[T1, T2] spelling) keyed on its signature",
        technique="runtime agreement monitor across check paths + independent reference oracle over an enumerated type x value space",
        ref="DESIGN.md section 3 C16"),
    "C17": dict(
        engine="svh",
        text="Each module is type-checked twice (diagnostics, type map and approximations must be identical), linted, and evaluated. Corpora: modules well typed by construction from the type-directed generator (in functions and at module level), "
             "annotated full-dialect modules, scrambled ill-typed modules and self-referential bindings for the no-crash / termination part (termination decided on CPU time: 240 s for a module of a few KB, run alone). The checker must report nothing on the well-typed corpus; for every binding to which it commits a definite type (no Any inside, module without approximations) "
             "every value the running program observed for that binding must be a member (C16 oracle on the rendered type); for exported names isinstance(value, rendered interface type) must hold.",
        note="trusted: the generator's notion of well-typed (no container mutation after binding, no risky forms); the parser for rendered types in pylib/c17.py; the C16 membership oracle",
        technique="runtime confrontation of static commitments with observed values + determinism / no-crash monitors over generated modules",
        ref="DESIGN.md section 3 C17"),
    "C18": dict(
        engine="svh",
        text="Generated programs with marker statements run uninstrumented, under (a sample of, thorough: all) 13 ProfileModes, with a logging statement hook, and under the debug adapter with breakpoints on all / none / a random subset of marker lines "
             "(unconditional, condition true, condition false, evaluate() at stops), and stepping into / over / out from the first statement. Transcripts must equal the uninstrumented run; the stop log must be exactly the marker executions whose line "
             "has a breakpoint; the variable a marker emits must be what variables() showed at the stop before it; step-into must visit every marker execution once, in order. Held on the (program, configuration) runs executed.",
        note="trusted: the marker discipline (markers contain no nested calls); step-over/out only checked for non-interference; one open known finding (module-level statements stop twice) keyed on its signature",
        technique="runtime trace monitor: transcript equality + stop-log subsequence/exactly-once checker over recorded debugger events",
        ref="DESIGN.md section 3 C18"),
    "C19": dict(
        engine="svh",
        text="The language server runs on an in-memory connection and is driven with raw JSON-RPC: per generated document (nested defs / lambdas / comprehensions with shadowing, non-ASCII and astral text before identifiers on the same line, CRLF and mixed line ends) "
             "a notification history (open / change / invalid change / close / reopen) and then definition, hover and completion requests at every identifier occurrence and at positions inside astral characters, past end of line and past end of file. "
             "Every range in every response is validated against the current text in UTF-16 units; the target of go-to-definition must be the identifier's text and a binding occurrence in the scope the running program read the variable from "
             "(each binding's value names its scope, each use emits what it read); the position of a run-time error must equal independently computed line/character.",
        note="trusted: Python's UTF-16 arithmetic and the document generator's scope bookkeeping (cross-checked against the run; disagreements are inconclusive); one open known finding (returned columns are chars, not UTF-16) keyed on its signature",
        technique="runtime protocol monitor (range well-formedness) + differential oracle between static name resolution and the executed program",
        ref="DESIGN.md section 3 C19"),
    "C20": dict(
        engine="svh",
        text="2..16 threads start on a barrier with seeded jitter and run generated client programs that load shared frozen modules (or, in the first-use variant, build globals and modules under contention), "
             "freeze their own modules and hand them to a neighbour thread that observes and drops them; each thread's transcript and every frozen-module observation must equal the sequential run. "
             "Thorough adds ThreadSanitizer (build-std; reports with a frame in /repo, deduplicated, 3 repetitions) and ASan builds. Held on the interleavings the scheduler produced.",
        note="trusted: OS scheduler + TSan happens-before for reach; hook H2 poisons arenas dropped on other threads (off under TSan); reports entirely inside std/harness are not counted",
        technique="concurrent-vs-sequential transcript monitor + ThreadSanitizer/AddressSanitizer builds",
        ref="DESIGN.md section 3 C20"),
    "C11": dict(
        engine="svmap",
        text="Every observation of the real containers is compared with a Vec model after every step of random long histories (length walks across "
             "the index threshold in both directions, adversarial full and partial hash collisions) and of exhaustively enumerated short histories over a "
             "3-key universe from five start states around the threshold; H3 checks index/entries agreement; stable, nightly (threshold 32 + SIMD probe) "
             "and Miri (Tree Borrows) builds. Held-on-what-was-observed; the enumerated sub-spaces are complete for their stated bounds.",
        note="trusted: the Vec model inside svmap; Miri's Stacked Borrows model is not used (aliasing-model report in slice_swap_shift is outside the property)",
        technique="runtime reference-model monitor over generated/enumerated operation histories + structural invariant hook + Miri UB interpreter",
        ref="DESIGN.md section 3 C11"),
}

NOT_YET = "check not built yet in this round (planned per DESIGN.md section 3); not claimed until it runs silently on the unchanged tree"
NOT_APPLICABLE = {}


def main():
    props = [json.loads(l) for l in open(os.path.join(VERIF, "properties.jsonl"))]
    hooks = subprocess.run(["git", "-C", "/repo", "log", "--format=%h %s"], stdout=subprocess.PIPE, text=True).stdout.splitlines()
    hook_commits = [l.split()[0] for l in hooks if l.split(" ", 1)[1].startswith("verif hook")]
    serves = {}
    for pid, c in CHECKS.items():
        serves.setdefault(c["engine"], []).append(pid)
    m = {
        "version": 1,
        "setup_cmd": "./check --setup",
        "hooks": {
            "guard": "starlark_verif",
            "enable": "RUSTFLAGS=\"--cfg starlark_verif\" (set by ./check for every flavor; /verif/harness path-depends on /repo's working tree)",
            "baseline_off_cmd": "cd /repo && cargo nextest run --workspace --no-fail-fast --tool-config-file pb:/w/lib/nextest.toml --profile pb --test-threads 8 --offline || cargo test --workspace --no-fail-fast --offline",
            "source_commits": list(reversed(hook_commits)),
            "add_only": True,
        },
        "engines": [
            {"name": "svmap", "path": "harness/svmap", "serves_properties": sorted(serves.get("svmap", [])),
             "kind_free_text": "reference-model monitor + invariant hook for starlark_map, native and under Miri"},
            {"name": "svh", "path": "harness/svh", "serves_properties": sorted(serves.get("svh", [])),
             "kind_free_text": "batch runner executing the real interpreter with hooks on, recording transcripts/events for offline oracles in pylib/"},
        ],
        "checks": [],
        "notes": "runtime monitoring and sanitizers only; verdicts are three-valued (violation / held on what was observed / inconclusive); see DESIGN.md",
        "not_applicable": [],
    }
    for p in props:
        pid = p["id"]
        if pid in CHECKS:
            c = CHECKS[pid]
            m["checks"].append({
                "property_id": pid,
                "quick_cmd": "./check %s --tier quick" % pid,
                "thorough_cmd": "./check %s --tier thorough" % pid,
                "evidence_file": "/verif/evidence/%s.json" % pid,
                "replay_cmd_template": "./check --replay {path}",
                "engine": c["engine"],
                "level_claimed": {"category": c.get("category", "exploration"), "text": c["text"], "design_ref": c["ref"]},
                "level_note": c["note"],
                "technique": c["technique"],
            })
        else:
            m["not_applicable"].append({"property_id": pid, "reason": NOT_APPLICABLE.get(pid, NOT_YET)})
    with open(os.path.join(VERIF, "MANIFEST.json"), "w") as f:
        json.dump(m, f, indent=1)
    print("checks:", [c["property_id"] for c in m["checks"]])


if __name__ == "__main__":
    main()
