"""Text generators for the parser checks (C05, C06)."""
import itertools
import random
import re

BIN = ["or", "and", "==", "!=", "<", ">", "<=", ">=", "in", "not in", "-", "+", "*", "%", "/", "//", "&", "|", "^", "<<", ">>"]
UN = ["-", "+", "~", "not "]


def operator_pairs():
    """Every ordered pair of binary operators in every context (exhaustive part of C06)."""
    out = []
    for o1 in BIN:
        for o2 in BIN:
            core = "a %s b %s c" % (o1, o2)
            out.append("x = %s\n" % core)
            for u in UN:
                out.append("x = %sa %s b %s c\n" % (u, o1, o2))
                out.append("x = a %s %sb %s c\n" % (o1, u, o2))
            out.append("x = %s if p %s q else r %s s\n" % (core, o1, o2))
            out.append("x = p if %s else q\n" % core)
            out.append("x = lambda a, b=1: %s\n" % core)
            out.append("x = [%s for a in b %s c if d %s e]\n" % (core, o1, o2))
            out.append("x = {a %s b: c %s d for a in e}\n" % (o1, o2))
            out.append("f(%s)\n" % core)
            out.append("f(x, %s, k=%s)\n" % (core, core))
            out.append("f(a %s b, *c %s d, **e %s g)\n" % (o1, o2, o1))
            out.append("x[%s]\n" % core)
            out.append("x[a %s b:c %s d:e]\n" % (o1, o2))
            out.append("x = {a %s b: c %s d}\n" % (o1, o2))
            out.append("def f(p=%s):\n    return %s\n" % (core, core))
            out.append("x = (a %s b, c %s d)\n" % (o1, o2))
            out.append("x = a %s b, c %s d\n" % (o1, o2))
            out.append("for i in a %s b:\n    pass\n" % o1)
            out.append("if a %s b %s c:\n    pass\n" % (o1, o2))
            out.append("x %s= a %s b\n" % (o1 if o1 in ("-", "+", "*", "%", "/", "//", "&", "|", "^", "<<", ">>") else "+", o2))
    return out


def param_and_arg_orders():
    out = []
    pk = ["a", "b=1", "*c", "*", "d", "e=2", "**g", "/", "h"]
    for n in range(0, 5):
        for seq in itertools.permutations(pk, n):
            out.append("def f(%s):\n    pass\n" % ", ".join(seq))
            if n <= 3:
                out.append("x = lambda %s: 1\n" % ", ".join(seq))
    ak = ["1", "a", "k=2", "*s", "**m", "k2=3", "*t", "**n"]
    for n in range(0, 5):
        for seq in itertools.permutations(ak, n):
            out.append("f(%s)\n" % ", ".join(seq))
            if n and n <= 2:
                out.append("f(%s,)\n" % ", ".join(seq))
    return out


STATEMENT_FORMS = [
    "pass\n", "x = 1\n", "x = y = 1\n", "x, y = 1, 2\n", "(x, y) = z\n", "[x, y] = z\n", "x, = z\n", "x.a = 1\n", "x[0] = 1\n", "x[0:1] = y\n", "x += 1\n", "x, y += 1\n",
    "x.a.b[1].c += 2\n", "return\n", "return 1\n", "break\n", "continue\n", "def f():\n    return\n", "def f():\n    return 1, 2\n", "def f(): return 1\n", "def f(): pass; return 2\n",
    "for x in y:\n    break\n", "for x in y:\n    continue\n", "for x in y: pass\n", "for x, y in z: pass\n", "for (x, y) in z: pass\n", "for [x, y] in z: pass\n", "for x.a in y: pass\n",
    "for x[0] in y: pass\n", "for x in 1, 2: pass\n", "for x in (1, 2): pass\n", "for x in y:\n    pass\nelse:\n    pass\n", "if a: pass\n", "if a:\n    pass\nelif b:\n    pass\nelse:\n    pass\n",
    "if a:\n    pass\nelif b:\n    pass\nelif c:\n    pass\n", "if a:\n    if b:\n        pass\n    else:\n        pass\nelse:\n    pass\n", "if a: x = 1; y = 2\nelse: z = 3\n",
    "x = 1; y = 2\n", "x = 1; y = 2;\n", "x = 1;\n", ";\n", "x = 1;; y = 2\n", "def f(a):\n    def g(b):\n        return a + b\n    return g\n", "def f():\n  x = 1\n  if x:\n     y = 2\n  return y\n",
    "def f():\n    x = 1\n\n    # comment\n    y = 2\n  # odd comment\n    return x\n", "def f():\n    x = 1\n      # deeper comment\n    return x\n", "def f():\n    if a:\n        if b:\n            x = 1\n    return 2\n",
    "def f():\n\tx = 1\n\treturn x\n", "x = (1 +\n     2)\n", "x = [1,\n  2,\n    3]\n", "x = 1 + \\\n    2\n", "x = f(a,\n      b=2,\n)\n", "x = {\n  1: 2,\n  3: 4,\n}\n", "x = 1", "def f():\n    return 1",
    "if a:\n    pass", "x = 1\n\n\n", "\n\nx = 1\n", "# only a comment\n", "", "\n", "x = 1 # trailing comment\n", "def f(): # c\n    pass # d\n",
    "x = ()\n", "x = (1,)\n", "x = (1)\n", "x = 1,\n", "x = 1, 2,\n", "x = [1, 2,]\n", "x = [,]\n", "x = (,)\n", "x = {1: 2,}\n", "x = {,}\n", "x = {1}\n", "x = {1, 2}\n", "x = {1: 2, 3}\n",
    "x = a[1]\n", "x = a[1, 2]\n", "x = a[1, 2, 3]\n", "x = a[1,]\n", "x = a[:]\n", "x = a[::]\n", "x = a[1:]\n", "x = a[:1]\n", "x = a[::2]\n", "x = a[1:2:3]\n", "x = a[1:2:]\n", "x = a[:2:3]\n",
    "x = a[1:2, 3]\n", "x = a[]\n", "x = a[1][2](3)(4).b[5:6]\n", "x = a.b.c\n", "x = a . b\n", "x = a.1\n", "x = 1 .real\n",
    "x = lambda: 1\n", "x = lambda a: a\n", "x = lambda a, b: (a, b)\n", "x = lambda *a, **k: 1\n", "x = lambda a=lambda: 1: a\n", "x = lambda: lambda: 1\n", "x = (lambda: 1)()\n", "x = lambda: 1, 2\n",
    "x = lambda a: a if a else lambda: 2\n", "f(lambda: 1, lambda a: a)\n", "x = [a for a in b]\n", "x = [a for a in b if c]\n", "x = [a for a in b for c in d]\n", "x = [a for a in b if c if d]\n",
    "x = [a for a, b in c]\n", "x = [a for (a, b) in c]\n", "x = [a for a in b, c]\n", "x = [a for a in (b, c)]\n", "x = [a, b for a in c]\n", "x = [(a, b) for a in c]\n", "x = [a if b else c for d in e]\n",
    "x = [a for b in c if d else e]\n", "x = [a for b in c if (d if e else f)]\n", "x = [a for b in lambda: c]\n", "x = [a for b in (lambda: c)]\n", "x = [lambda: a for b in c]\n", "x = {a: b for a in c}\n",
    "x = {a: b for a, b in c if a}\n", "x = [[a for a in b] for b in c]\n", "x = [a for a in [b for b in c]]\n", "x = a if b else c\n", "x = a if b else c if d else e\n", "x = (a if b else c) if d else e\n",
    "x = a if (b if c else d) else e\n", "x = a if b if c else d else e\n", "x = a if b else c, d\n", "x = not a\n", "x = not not a\n", "x = not a == b\n", "x = a == not b\n", "x = - - a\n", "x = -a * b\n", "x = -a ** b\n",
    "x = a not in b\n", "x = a not b\n", "x = not a in b\n", "x = a in b in c\n", "x = a < b < c\n", "x = a is b\n", "x = a and b or c\n", "x = a or b and c\n", "x = not a and b\n", "x = a and not b\n",
    "x = a < b == c\n", "x = (a < b) == c\n", "x = a | b == c\n", "x = a == b | c\n", "x = a << b + c\n", "x = a + b << c\n", "x = a & b | c ^ d\n", "x = a ^ b & c | d\n", "x = a * b // c % d / e\n",
    "f()\n", "f(a)\n", "f(a,)\n", "f(a, b)\n", "f(a=1)\n", "f(a, b=1)\n", "f(*a)\n", "f(**a)\n", "f(a, *b, **c)\n", "f(a)(b)\n", "f(a=1, a=2)\n", "f(a=1, b)\n", "f(**a, b)\n", "f(*a, b)\n", "f(*a, *b)\n",
    "f(**a, **b)\n", "f(a for a in b)\n", "f(1=2)\n", "f(a.b=2)\n", "f(a b)\n", "f(,)\n", "def f(a, a): pass\n", "def f(a, *, a): pass\n", "def f(*): pass\n", "def f(*, **k): pass\n", "def f(a=1, b): pass\n",
    "def f(*a, b): pass\n", "def f(*a, b=1, c): pass\n", "def f(**k, a): pass\n", "def f(*a, *b): pass\n", "def f(a, /): pass\n", "def f(/): pass\n", "def f(a, /, b, /): pass\n", "def f(*a, /): pass\n",
    "def f(a, b=1, /, c=2, *, d, e=3, **k): pass\n", "def 1f(): pass\n", "def f: pass\n", "def f()\n    pass\n", "def f():\npass\n", "def f():\n    pass\n  x = 1\n", "  x = 1\n", "x = 1\n  y = 2\n",
    "if a:\n    x = 1\n   y = 2\n", "x = 0x1F\n", "x = 0o17\n", "x = 0b101\n", "x = 1.5\n", "x = 1e3\n", "x = 1.5e-3\n", "x = .5\n", "x = 1.\n", "x = 1e\n", "x = 0x\n", "x = 1_000\n", "x = 012\n", "x = 00\n", "x = 0\n",
    "x = 'a'\n", 'x = "a"\n', "x = 'a\"b'\n", "x = \"a'b\"\n", "x = 'a\\'b'\n", "x = '''a\nb'''\n", 'x = """a"b"""\n', "x = 'a' 'b'\n", "x = r'a\\b'\n", "x = 'a\\nb\\tc\\\\d'\n", "x = 'a\\x41\\u00e9'\n",
    "x = 'unterminated\n", "x = '''unterminated\n", "x = 'a\\'\n", "x = True\n", "x = None\n", "True = 1\n", "None = 1\n", "x = not\n", "x = (\n", "x = )\n", "x = [\n", "x = ]\n", "x = {\n", "x = }\n",
    "x = a +\n", "x = + \n", "= 1\n", "x == 1\n", "1 = x\n", "f() = 1\n", "a + b = 1\n", "x = 1 2\n", "x y\n", "if:\n    pass\n", "if a\n    pass\n", "for in y: pass\n", "for x y: pass\n", "else: pass\n",
    "elif a: pass\n", "while a: pass\n", "class A: pass\n", "import a\n", "global a\n", "del a\n", "assert a\n", "raise a\n", "try:\n    pass\nexcept:\n    pass\n", "with a: pass\n", "x = a ** b\n", "x = a @ b\n",
    "x = a := b\n", "x = (a := b)\n", "x = yield\n", "x = await a\n", "x = a if b\n", "x = a else b\n", "x = lambda\n", "x = lambda a\n", "x = [a for]\n", "x = [for a in b]\n", "x = [a for a in]\n",
    "x = [a for a b]\n", "x = {a for a in b}\n", "x = {a: b, c for a in d}\n", "x = (a for a in b)\n", "x = *a\n", "x = *a, b\n", "*a, b = c\n", "x = [*a]\n", "x = {**a}\n", "print a\n", "x = `a`\n", "x = a <> b\n",
    "x = a ? b : c\n", "x = $a\n", "x = a!\n", "x = 'a' if b else 'c' 'd'\n", "def f():\n    return lambda: (yield)\n", "x = a.b(c)[d].e(f=g)[h:i]\n", "x = not a if not b else not c\n", "x = -a if -b else -c\n",
    "x = a or b if c or d else e or f\n", "x = lambda: a or b if c else d\n", "x = [a or b for c in d or e if f or g]\n", "x = a if b else lambda: c if d else e\n",
]

IDENTS = ["a", "b", "c", "x", "f", "foo", "_x", "x1"]


def random_expr(rng, d=0):
    k = rng.randrange(20) if d < 4 else rng.randrange(3)
    e = lambda: random_expr(rng, d + 1)
    if k < 2:
        return rng.choice(IDENTS)
    if k == 2:
        return rng.choice(["1", "0", "23", "1.5", '"s"', "'t'", "True", "None", "0x1f"])
    if k < 8:
        return "%s %s %s" % (e(), rng.choice(BIN), e())
    if k == 8:
        return "%s%s" % (rng.choice(UN), e())
    if k == 9:
        return "(%s)" % e()
    if k == 10:
        return "%s if %s else %s" % (e(), e(), e())
    if k == 11:
        return "lambda %s: %s" % (rng.choice(["", "a", "a, b=1", "*a", "**k", "a, *, b"]), e())
    if k == 12:
        return "%s(%s)" % (rng.choice(IDENTS), ", ".join(rng.choice(["%s", "k=%s", "*%s", "**%s"]) % e() for _ in range(rng.randint(0, 3))))
    if k == 13:
        return "%s[%s]" % (rng.choice(IDENTS), rng.choice(["%s", "%s:%s", ":%s", "%s:", "%s:%s:%s", "::%s", "%s, %s"]).replace("%s", "{}").format(*[e() for _ in range(3)]))
    if k == 14:
        return "[%s]" % ", ".join(e() for _ in range(rng.randint(0, 3)))
    if k == 15:
        return "{%s}" % ", ".join("%s: %s" % (e(), e()) for _ in range(rng.randint(0, 2)))
    if k == 16:
        return "(%s,%s)" % (e(), (" " + e()) if rng.random() < 0.6 else "")
    if k == 17:
        return "[%s for %s in %s%s]" % (e(), rng.choice(["a", "a, b", "(a, b)"]), e(), rng.choice(["", " if %s" % e(), " for c in %s" % e()]))
    if k == 18:
        return "%s.%s" % (rng.choice(IDENTS), rng.choice(IDENTS))
    return "%s, %s" % (e(), e())


def random_stmt(rng, indent=0, d=0):
    pad = "    " * indent
    k = rng.randrange(12) if d < 3 else rng.randrange(5)
    if k < 3:
        return pad + "%s = %s\n" % (rng.choice(["x", "x, y", "x.a", "x[0]", "(x, y)", "[x, y]"]), random_expr(rng))
    if k == 3:
        return pad + "%s\n" % random_expr(rng)
    if k == 4:
        return pad + "%s %s= %s\n" % (rng.choice(["x", "x.a", "x[0]"]), rng.choice(["+", "-", "*", "//", "%", "&", "|", "^", "<<", ">>", "/"]), random_expr(rng))
    if k == 5:
        return pad + "if %s:\n%s" % (random_expr(rng), random_stmt(rng, indent + 1, d + 1)) + (pad + "else:\n" + random_stmt(rng, indent + 1, d + 1) if rng.random() < 0.4 else "")
    if k == 6:
        return pad + "for %s in %s:\n%s" % (rng.choice(["i", "i, j", "(i, j)"]), random_expr(rng).replace(", ", " + "), random_stmt(rng, indent + 1, d + 1))
    if k == 7:
        return pad + "def %s(%s):\n%s%s    return %s\n" % (rng.choice(IDENTS), rng.choice(["", "a", "a, b=1", "*a, **k", "a, /, b", "a, *, b=2"]), random_stmt(rng, indent + 1, d + 1), pad, random_expr(rng))
    if k == 8:
        return pad + "pass\n"
    if k == 9:
        return pad + "%s = %s; %s\n" % ("x", random_expr(rng).replace(", ", " + "), random_expr(rng))
    if k == 10:
        return random_stmt(rng, indent, d + 1) + random_stmt(rng, indent, d + 1)
    return pad + "x = [\n%s    %s,\n%s]\n" % (pad, random_expr(rng).replace(", ", " + "), pad)


TOKEN_RE = re.compile(r"\s+|[A-Za-z_][A-Za-z_0-9]*|[0-9][0-9a-zA-Z_.]*|\"[^\"\n]*\"|'[^'\n]*'|//=|<<=|>>=|==|!=|<=|>=|//|<<|>>|\+=|-=|\*=|/=|%=|&=|\|=|\^=|[^\s]")


def mutate(rng, src):
    toks = TOKEN_RE.findall(src)
    if len(toks) < 2:
        return src
    k = rng.randrange(6)
    i = rng.randrange(len(toks))
    if k == 0:
        del toks[i]
    elif k == 1:
        toks.insert(i, toks[i])
    elif k == 2:
        j = rng.randrange(len(toks))
        toks[i], toks[j] = toks[j], toks[i]
    elif k == 3:
        toks[i] = rng.choice(["(", ")", "[", "]", ":", ",", "=", "if", "else", "for", "in", "not", "lambda", "and", "or", "*", "**", "def", "return", "\n", "    ", ".", "+", "-"])
    elif k == 4:
        toks.insert(i, rng.choice(["(", ")", "[", "]", ":", ",", "=", "if", "else", "for", "in", "not", "lambda", "*", "**", "\n", "    ", ";"]))
    else:
        j = rng.randrange(len(toks))
        toks[i:i] = toks[j:j + rng.randint(1, 4)]
    return "".join(toks)


def soup(rng, n):
    alphabet = ["a", "b", "x", "1", "0", "1.5", '"s"', "'", '"', '"""', "'''", "\\", "\n", "\n    ", "\n        ", "\t", " ", "(", ")", "[", "]", "{", "}", ":", ",", ";", ".", "=", "==", "+", "-", "*", "**", "/", "//",
                "%", "&", "|", "^", "~", "<<", ">>", "<", ">", "<=", ">=", "!=", "+=", "if", "else", "elif", "for", "in", "not", "and", "or", "def", "return", "lambda", "pass", "break", "continue", "load",
                "#", "\r", "\r\n", "f\"", "r'", "b\"", "{x}", "\\n", "\\x", "\\u", "\u00e9", "\u65e5", "\U0001F600", "\ufeff", "\x00", "0x", "0o", "0b", "1e", "e9", "_", "True", "None", "->", "@", "$", "?", "!", "`"]
    return "".join(rng.choice(alphabet) for _ in range(n))


STR_PREFIXES = ["", "", "r", "b", "f", "f", "f", "rb", "br", "rf", "fr", "F", "R", "B", "u"]
STR_QUOTES = ["'", '"', "'''", '"""']
STR_ATOMS = ["{", "}", "{{", "}}", "{a}", "{a", "a}", "{}", "{a.b}", "{a!r}", "{a:>3}", "{a[0]}", "{ a }", "{1}", "{a}{b}", "\u00e9", "\u65e5", "\U0001F600", "\u0301", "\\", "\\n", "\\x41", "\\x4",
             "\\u00e9", "\\u", "\\U0001F600", "\\U0011", "\\{", "\\}", "\\'", '\\"', "\\0", "\\777", "\\\n", "\n", "\r", "\r\n", "a", "b", " ", "'", '"', "!", "!r", ":", ".", "[", "]", "%s", "%", "%(a)s", "\t",
             "\ufeff", "\x00", "0", "#", "\\N{DASH}", "\u2028", "\x7f", "\xa0"]


def string_literal_input(rng):
    """One statement built around randomly composed string literals: every prefix x quote style x content made of
    braces, escapes, multi-byte characters, quotes and line breaks (terminated or not)."""
    def lit():
        pre = rng.choice(STR_PREFIXES)
        q = rng.choice(STR_QUOTES)
        body = "".join(rng.choice(STR_ATOMS) for _ in range(rng.choice([0, 1, 1, 2, 2, 3, 4, 6, 10])))
        end = q if rng.random() < 0.85 else rng.choice(["", q[:1], "\n"])
        return pre + q + body + end
    k = rng.randrange(8)
    if k == 0:
        return "x = %s\n" % lit()
    if k == 1:
        return "x = %s %s\n" % (lit(), lit())
    if k == 2:
        return "f(%s, k=%s)\n" % (lit(), lit())
    if k == 3:
        return "def g(a, b):\n    return %s %% (a, b)\n" % lit()
    if k == 4:
        return "x = [%s for a in %s if %s]\n" % (lit(), lit(), lit())
    if k == 5:
        return "x = %s.format(a=%s)\ny = {%s: %s}\n" % (lit(), lit(), lit(), lit())
    if k == 6:
        return "# %s\nx = %s # %s\n" % (lit(), lit(), lit())
    return lit()


CORNERS = [
    "x = 1\r\ny = 2\r\n", "x = 1\ry = 2\r", "x = 1\r", "\r\n", "if a:\r\n    x = 1\r\n", "if a:\n\tx = 1\n        y = 2\n", "if a:\n        x = 1\n\ty = 2\n", "x = 1 \\\n", "x = 1 \\", "x = \\\n1\n", "\\\n", "\\",
    "x = \"abc", "x = 'abc", "x = \"\"\"abc", "x = '''abc\n\n", "x = \"a\\", "x = \"\\", "x = \"\\\"", "x = '\\x'", "x = '\\x4'", "x = '\\x41'", "x = '\\xZZ'", "x = '\\u'", "x = '\\u12'", "x = '\\u1234'", "x = '\\uD800'",
    "x = '\\U0001F600'", "x = '\\U00110000'", "x = '\\U1'", "x = '\\0'", "x = '\\7'", "x = '\\777'", "x = '\\400'", "x = '\\8'", "x = '\\a\\b\\f\\v\\z'", "x = '\\\n'", "x = r'\\'", "x = r'\\''", "x = r\"\\\"\"", "x = b'abc'",
    "x = b'\\xff'", "x = b'\u00e9'", "x = rb'a'", "x = br'a'", "x = f'a'", "x = f'{a}'", "x = f'{a}{b}'", "x = f'{{a}}'", "x = f'{a'", "x = f'a}'", "x = f'{}'", "x = f'{a.b}'", "x = f'{a!r}'", "x = f'{a!s}'", "x = f'{a!z}'",
    "x = f'{a:>5}'", "x = f'{f\"{a}\"}'", "x = f'{a + b}'", "x = f'{ a }'", "x = f'''{a}\n{b}'''", "x = f'\u00e9{a}\u65e5'", "x = rf'{a}'", "x = fr'{a}'", "x = f'{'", "x = f'{{'", "x = f'}}'", "x = f'{a}}'",
    "\u00e9 = 1\n", "x\u00e9 = 1\n", "\u65e5\u672c = 1\n", "x = '\u00e9\u65e5\U0001F600'\n", "# \u00e9\nx = 1\n", "x = 1 # \U0001F600\n", "\ufeffx = 1\n", "x = 1\x00\n", "\x00", "x = '\x00'\n", "x\x0c= 1\n", "x = 1\x0b\n",
    "x = 1\u2028y = 2\n", "x\u00a0= 1\n", "0x", "0xg", "0b2", "0o8", "1e+", "1e-", "1.e5", "1..2", "1.2.3", "1__0", "9" * 400, "0x" + "f" * 300, "1." + "0" * 400, "1e400", "1e-400", "x = " + "(" * 150 + "1" + ")" * 150 + "\n",
    "x = " + "[" * 150 + "]" * 150 + "\n", "x = " + "-" * 150 + "1\n", "x = " + "not " * 150 + "a\n", "x = a" + ".b" * 150 + "\n", "x = a" + "[0]" * 150 + "\n", "x = a" + "()" * 150 + "\n",
    "x = " + " + ".join(["a"] * 200) + "\n", "x = " + "lambda: " * 100 + "1\n", "x = " + "a if b else " * 100 + "c\n", "".join("    " * i + "if a:\n" for i in range(60)) + "    " * 60 + "pass\n",
    "".join("    " * i + "def f():\n" for i in range(60)) + "    " * 60 + "pass\n", "x = (" * 190 + ")" * 190, "load(\"a\", \"b\")\n", "load(\"a\", b=\"c\")\n", "load('a', 'b', c='d',)\n", "load()\n", "load(a)\n",
    "load(\"a\")\n", "load(\"a\", b)\n", "load(\"a\", 1)\n", "load(\"a\", \"b\" + \"c\")\n", "def f():\n    load(\"a\", \"b\")\n", "x = load\n", "load = 1\n", "x: int = 1\n", "x: int\n", "def f(a: int, b: str = 's') -> bool: pass\n",
    "def f(*a: int, **k: str): pass\n", "x = lambda a: int: a\n", "def f() -> : pass\n", "def f(a:): pass\n", "x: list[int] = []\n", "x: int | None = 1\n", "x: \"int\" = 1\n", "x.y: int = 1\n", "x, y: int = 1, 2\n",
    "def f(a: tuple[int, ...]): pass\n", "x = ...\n", "x = a[...]\n", "x = a[..., 1]\n", "x = a[1, ...]\n",
]
