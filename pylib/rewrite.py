"""Semantics-preserving rewrites of generated Starlark programs (they are syntactically valid Python,
so CPython's `ast` is used as the parser/printer).

  v0: parse + print (baseline text of the same printer)
  v1: every literal operand hidden behind opaque(...)
  v2: every callee and method receiver hidden behind opaque(...)
  v3: v1 + v2
  v4: every module-level assigned name is first assigned None (defeats assign-once constant propagation)
"""
import ast

SKIP_CALLS = {"load", "emit", "opaque"}


class Opacify(ast.NodeTransformer):
    def __init__(self, literals, callees):
        self.literals = literals
        self.callees = callees

    # never touch annotations
    def visit_arg(self, node):
        return node

    def visit_FunctionDef(self, node):
        node.args = self._args(node.args)
        node.body = [self.visit(b) for b in node.body]
        return node

    def visit_Lambda(self, node):
        node.args = self._args(node.args)
        node.body = self.visit(node.body)
        return node

    def _args(self, a):
        a.defaults = [self.visit(d) for d in a.defaults]
        a.kw_defaults = [self.visit(d) if d is not None else None for d in a.kw_defaults]
        return a

    def visit_AnnAssign(self, node):
        if node.value is not None:
            node.value = self.visit(node.value)
        return node

    def visit_JoinedStr(self, node):
        return node  # f-string bodies only allow identifiers

    def visit_Constant(self, node):
        if self.literals and not isinstance(node.value, (bytes, type(Ellipsis))):
            return ast.Call(func=ast.Name(id="opaque", ctx=ast.Load()), args=[node], keywords=[])
        return node

    def visit_UnaryOp(self, node):
        # -5 is a literal too: keep the sign inside so that folding of the negation is also defeated
        node.operand = self.visit(node.operand)
        return node

    def visit_Call(self, node):
        if isinstance(node.func, ast.Name) and node.func.id in SKIP_CALLS:
            if node.func.id == "load":
                return node
            node.args = [self.visit(a) for a in node.args]
            node.keywords = [ast.keyword(arg=k.arg, value=self.visit(k.value)) for k in node.keywords]
            return node
        # type constructors used with literal type arguments keep them (record(x=int), enum("a"), field(int, 1))
        if isinstance(node.func, ast.Name) and node.func.id in ("record", "enum", "field"):
            if self.callees:
                node.func = ast.Call(func=ast.Name(id="opaque", ctx=ast.Load()), args=[node.func], keywords=[])
            return node
        node.args = [self.visit(a) for a in node.args]
        node.keywords = [ast.keyword(arg=k.arg, value=self.visit(k.value)) for k in node.keywords]
        if self.callees:
            if isinstance(node.func, ast.Attribute):
                recv = self.visit(node.func.value)
                node.func = ast.Attribute(value=ast.Call(func=ast.Name(id="opaque", ctx=ast.Load()), args=[recv], keywords=[]), attr=node.func.attr, ctx=ast.Load())
            else:
                f = self.visit(node.func)
                node.func = ast.Call(func=ast.Name(id="opaque", ctx=ast.Load()), args=[f], keywords=[])
        else:
            node.func = self.visit(node.func)
        return node


def assign_twice(tree):
    new = []
    seen = set()
    for st in tree.body:
        names = []

        def collect(t):
            if isinstance(t, ast.Name):
                names.append(t.id)
            elif isinstance(t, (ast.Tuple, ast.List)):
                for e in t.elts:
                    collect(e)
        if isinstance(st, ast.Assign):
            for t in st.targets:
                collect(t)
        else:
            # names bound by other module-level statements (for targets, nested assignments in if/for bodies)
            # count as seen, so that a later plain assignment is not preceded by `name = None`
            for sub in ast.walk(st):
                if isinstance(sub, ast.Name) and isinstance(sub.ctx, ast.Store):
                    seen.add(sub.id)
        for n in names:
            if n not in seen:
                seen.add(n)
                new.append(ast.Assign(targets=[ast.Name(id=n, ctx=ast.Store())], value=ast.Constant(value=None), lineno=0))
        new.append(st)
    tree.body = new
    return tree


def variants(src, which=("v0", "v1", "v2", "v3", "v4")):
    """Returns dict name -> source text; raises SyntaxError if src is not parseable by the Python grammar."""
    out = {}
    for w in which:
        tree = ast.parse(src)
        if w == "v1":
            tree = Opacify(True, False).visit(tree)
        elif w == "v2":
            tree = Opacify(False, True).visit(tree)
        elif w == "v3":
            tree = Opacify(True, True).visit(tree)
        elif w == "v4":
            tree = assign_twice(tree)
        ast.fix_missing_locations(tree)
        out[w] = ast.unparse(tree) + "\n"
    return out
