"""Generator for terminating programs in the Python-shared core of Starlark.

Every program is a list of statements (one simple statement per line, no expression is broken
across lines). `render(module_level=True/False)` gives the same body at module level or wrapped
in `def main(): ...; main()`. Programs only use constructs whose meaning coincides in CPython 3
and Starlark (see DESIGN.md C01 for the exclusion list). Types are tracked so that most programs
run to completion; failures are injected deliberately at chosen points.

The generator is also the base of gen_full (Starlark-only features)."""

import random
import re

INT, STR, BOOL, LI, LS, DSI, DIS, TIS, LLI = "int", "str", "bool", "list_int", "list_str", "dict_si", "dict_is", "tup_is", "list_list_int"
MUTABLE = {LI, LS, DSI, DIS, LLI}
ALL_TYPES = [INT, STR, BOOL, LI, LS, DSI, DIS, TIS, LLI]

WORDS = ["", "a", "b", "ab", "ba", "abc", "x", "xy", "k1", "k2", "zz", "A", "Ab", "hello", "a b", " a ", "a,b,c", "1", "12", "007", "-3", "Zz9"]
KEYS = ["a", "b", "c", "k1", "k2", "zz", "x"]
BIG = [0, 1, -1, 2, -2, 7, 10, 100, 255, 256, 2**31 - 1, 2**31, -(2**31), 2**32, 2**53 + 1, 2**63 - 1, 2**63, -(2**63), 2**64, 2**70]


class Var:
    def __init__(self, name, ty, group, const=False):
        self.name, self.ty, self.group, self.const = name, ty, group, const


class Fn:
    def __init__(self, name, params, ret, mut_params, mut_groups, arity_kinds=None):
        self.name = name
        self.params = params  # list of (name, ty, has_default)
        self.ret = ret
        self.mut_params = mut_params  # indexes of params mutated
        self.mut_groups = mut_groups  # alias groups of captured containers mutated
        self.kwonly = []
        self.captured = set()


class Scope:
    def __init__(self, parent=None, is_fn=False):
        self.parent = parent
        self.vars = []
        self.fns = []
        self.is_fn = is_fn
        self.loop_depth = 0 if (parent is None or is_fn) else parent.loop_depth
        self.locked = set() if parent is None else set(parent.locked)

    def all_vars(self):
        s, out = self, []
        while s:
            out.extend(s.vars)
            s = s.parent
        # inner shadows outer: dedupe by name keeping first
        seen, res = set(), []
        for v in out:
            if v.name not in seen:
                seen.add(v.name)
                res.append(v)
        return res

    def all_fns(self):
        s, out = self, []
        while s:
            out.extend(s.fns)
            s = s.parent
        return out

    def fn_scope(self):
        s = self
        while s and not s.is_fn:
            s = s.parent
        return s


class Gen:
    def __init__(self, rng, max_stmts=40, max_depth=3, risk=0.01, inject_fail=0.3, py_compat=True, no_mutation=False, tick_p=0.04):
        self.r = rng
        self.max_stmts = max_stmts
        self.max_depth = max_depth
        self.risk = risk
        self.inject_fail = inject_fail
        self.tick_p = tick_p
        self.ntick = 0
        self.py = py_compat
        self.no_mutation = no_mutation
        self.nv = 0
        self.nf = 0
        self.ng = 0
        self.nstmts = 0
        self.lines = []  # (indent, text)
        self.uf = {}
        self.param_stack = []
        self.cur_fn_mut_groups = None
        self.cur_fn_params = None

    # ---- alias groups (union-find)
    def find(self, g):
        if g is None:
            return None
        while self.uf.get(g, g) != g:
            g = self.uf[g]
        return g

    def union(self, a, b):
        a, b = self.find(a), self.find(b)
        if a is not None and b is not None and a != b:
            self.uf[max(a, b)] = min(a, b)

    def is_locked(self, sc, group):
        g = self.find(group)
        return g is not None and any(self.find(x) == g for x in sc.locked)

    def groups_locked(self, sc, groups):
        return any(self.is_locked(sc, g) for g in groups)

    def mentioned(self, sc, text, types=None):
        """Alias groups of the mutable variables whose names occur in `text`."""
        out = set()
        for v in sc.all_vars():
            if v.group is not None and (types is None or v.ty in types) and re.search(r"\b%s\b" % v.name, text):
                out.add(self.find(v.group))
        return out

    # ---- helpers
    def fresh_var(self, prefix="v"):
        self.nv += 1
        return "%s%d" % (prefix, self.nv)

    def fresh_group(self):
        self.ng += 1
        return self.ng

    def ch(self, seq):
        return seq[self.r.randrange(len(seq))]

    def p(self, x):
        return self.r.random() < x

    def vars_of(self, sc, ty, unlocked=False):
        out = [v for v in sc.all_vars() if v.ty == ty]
        if unlocked:
            out = [v for v in out if not self.is_locked(sc, v.group)]
        return out

    def emit_line(self, indent, text):
        self.lines.append((indent, text))

    # ---- expressions
    def lit(self, ty):
        r = self.r
        if ty == INT:
            if self.p(0.15):
                return str(self.ch(BIG))
            return str(r.randint(-5, 20))
        if ty == STR:
            return self.qs(self.ch(WORDS))
        if ty == BOOL:
            return self.ch(["True", "False"])
        if ty == LI:
            return "[" + ", ".join(str(r.randint(-3, 12)) for _ in range(r.randint(0, 5))) + "]"
        if ty == LS:
            return "[" + ", ".join(self.qs(self.ch(WORDS)) for _ in range(r.randint(0, 4))) + "]"
        if ty == DSI:
            ks = r.sample(KEYS, r.randint(0, 4))
            return "{" + ", ".join("%s: %d" % (self.qs(k), r.randint(0, 9)) for k in ks) + "}"
        if ty == DIS:
            ks = r.sample(range(0, 8), r.randint(0, 4))
            return "{" + ", ".join("%d: %s" % (k, self.qs(self.ch(WORDS))) for k in ks) + "}"
        if ty == TIS:
            return "(%d, %s)" % (r.randint(0, 9), self.qs(self.ch(WORDS)))
        if ty == LLI:
            return "[" + ", ".join(self.lit(LI) for _ in range(r.randint(0, 3))) + "]"
        raise ValueError(ty)

    def qs(self, s):
        return '"' + s.replace("\\", "\\\\").replace('"', '\\"') + '"'

    tick_p = 0.04
    ntick = 0

    def expr(self, sc, ty, d=0):
        """Expression of type ty. Never mutates anything. Now and then a subexpression is routed through
        tk(n, x), which emits n and returns x: evaluation order of operands becomes part of the transcript."""
        ex = self._expr(sc, ty, d)
        if self.tick_p and d <= 3 and self.p(self.tick_p):
            self.ntick += 1
            return "tk(%d, %s)" % (self.ntick, ex)
        return ex

    def _expr(self, sc, ty, d=0):
        r = self.r
        vs = self.vars_of(sc, ty)
        if d >= self.max_depth or self.p(0.25):
            if vs and self.p(0.7):
                return self.ch(vs).name
            return self.lit(ty)
        fns = [f for f in sc.all_fns() if f.ret == ty and not f.mut_params and not f.mut_groups]  # pure w.r.t. containers
        if fns and self.p(0.2):
            f = self.ch(fns)
            if self.cur_fn_mut_groups is not None:
                self.cur_fn_mut_groups |= f.mut_groups
            return self.call(sc, f, d)
        e = lambda t: self.expr(sc, t, d + 1)
        if ty == INT:
            k = r.randrange(22)
            if k < 5:
                op = self.ch(["+", "-", "*", "+", "-", "&", "|", "^"])
                return "(%s %s %s)" % (e(INT), op, e(INT))
            if k == 5:
                return "(%s // (abs(%s) + 1))" % (e(INT), e(INT))
            if k == 6:
                sign = self.ch(["", "-"])
                return "(%s %% %s(abs(%s) + 1))" % (e(INT), sign, e(INT))
            if k == 7:
                return "(%s %s (%s %% 9))" % (e(INT), self.ch(["<<", ">>"]), e(INT))
            if k == 8:
                return "(%s%s)" % (self.ch(["-", "~", "+"]), e(INT))
            if k == 9:
                t = self.ch([LI, LS, DSI, STR, LLI, DIS])
                return "len(%s)" % e(t)
            if k == 10:
                return "%s(%s, %s)" % (self.ch(["min", "max"]), e(INT), e(INT))
            if k == 11:
                return "abs(%s)" % e(INT)
            if k == 12:
                l = e(LI)
                if self.p(self.risk * 5):
                    return "%s[%s]" % (l, e(INT))
                return "(%s + [0])[%s %% (len(%s) + 1)]" % (l, e(INT), l) if self.p(0.3) else "%s(%s + [%s])" % (self.ch(["min", "max"]), l, e(INT))
            if k == 13:
                dd = e(DSI)
                key = self.qs(self.ch(KEYS))
                if self.p(self.risk * 5):
                    return "%s[%s]" % (dd, key)
                return "%s.get(%s, %s)" % (dd, key, e(INT))
            if k == 14:
                return "%s.%s(%s)" % (e(STR), self.ch(["find", "count", "rfind"]), self.qs(self.ch(["a", "b", "", "ab", "z"])))
            if k == 15:
                return "(%s if %s else %s)" % (e(INT), e(BOOL), e(INT))
            if k == 16:
                return "int(str(%s))" % e(INT)
            if k == 17:
                return "%s[0]" % e(TIS)
            if k == 18:
                return "(%s %s %s)" % (e(INT), self.ch(["and", "or"]), e(INT))
            if k == 19:
                l = e(LI)
                x = e(INT)
                return "(%s.index(%s) if %s in %s else -1)" % (l, x, x, l)
            if k == 20:
                return "len([x for x in %s if x %% 2 == 0])" % e(LI)
            kk = r.randrange(9)
            if kk == 0:
                return "(%s + %s)[2]" % (e(TIS), e(TIS))
            if kk == 1:
                return "len(%s * (%s %% 3))" % (e(TIS), e(INT))
            if kk == 2:
                return "max(%s, %s, %s)" % (e(INT), e(INT), e(INT))
            if kk == 3:
                a, b, c = r.randint(-3, 5), r.randint(-3, 12), self.ch([1, 2, 3, -1, -2])
                return "len(range(%d, %d, %d))" % (a, b, c)
            if kk == 4:
                return "(list(range(%d)) + [7])[%s %% 3]" % (r.randint(2, 6), e(INT))
            if kk == 5:
                return "len(%s.splitlines())" % e(STR)
            if kk == 6:
                return "min(%s + [%s], key=lambda x: -x)" % (e(LI), e(INT))
            if kk == 7:
                return "(1 if %s in range(%d, %d) else 0)" % (e(INT), r.randint(-2, 2), r.randint(3, 9))
            return "int(%s)" % self.qs(str(r.randint(-99, 99)))
        if ty == STR:
            k = r.randrange(20)
            if k < 3:
                return "(%s + %s)" % (e(STR), e(STR))
            if k == 3:
                return "(%s * (%s %% 4))" % (e(STR), e(INT))
            if k == 4:
                if self.p(0.5):
                    return "%s[%s:%s:%s]" % (e(STR), self.bound(sc, d), self.bound(sc, d), self.stride(sc, d))
                a, b = r.randint(-4, 4), r.randint(-4, 6)
                return "%s[%d:%d]" % (e(STR), a, b)
            if k == 5:
                step = self.ch([-2, -1, 1, 2, 3])
                return "%s[%s:%s:%d]" % (e(STR), self.ch(["", "1", "-1", "-3"]), self.ch(["", "2", "-1", "5"]), step)
            if k == 6:
                m = self.ch(["upper", "lower", "strip", "lstrip", "rstrip", "capitalize", "title"])
                return "%s.%s()" % (e(STR), m)
            if k == 7:
                return '("%%s-%%d" %% (%s, %s))' % (e(STR), e(INT))
            if k == 8:
                return '"{}:{}".format(%s, %s)' % (e(self.ch([STR, INT])), e(INT))
            if k == 9:
                return "str(%s)" % e(self.ch([INT, INT, LI, BOOL]))
            if k == 10:
                return "%s.join(%s)" % (self.qs(self.ch([",", "", "-", " "])), e(LS))
            if k == 11:
                return "%s.replace(%s, %s)" % (e(STR), self.qs(self.ch(["a", "b", "ab", ""])), self.qs(self.ch(["", "x", "aa"])))
            if k == 12:
                s = e(STR)
                if self.p(self.risk * 5):
                    return "%s[%s]" % (s, e(INT))
                return "(%s + \"_\")[%s %% (len(%s) + 1)]" % (s, e(INT), s)
            if k == 13:
                return "chr(65 + (%s %% 26))" % e(INT)
            if k == 14:
                return "%s[1]" % e(TIS)
            if k == 15:
                return "(%s if %s else %s)" % (e(STR), e(BOOL), e(STR))
            if k == 16:
                dd = e(DIS)
                return "%s.get(%s, %s)" % (dd, e(INT), e(STR))
            if k == 17:
                return '("%%x|%%o|%%s" %% (abs(%s), abs(%s), %s))' % (e(INT), e(INT), e(LI))
            if k == 18:
                return "%s.%s(%s)" % (e(STR), self.ch(["removeprefix", "removesuffix", "strip", "lstrip", "rstrip"]), self.qs(self.ch(["a", "ab", "b", " "])))
            kk = r.randrange(6)
            if kk == 0:
                return "%s.%s(%s)[%d]" % (e(STR), self.ch(["partition", "rpartition"]), self.qs(self.ch([",", "a", " ", "ab"])), r.randint(0, 2))
            if kk == 1:
                return '"{a}-{b}".format(a=%s, b=%s)' % (e(INT), e(STR))
            if kk == 2:
                return "min(%s, %s)" % (e(STR), e(STR))
            if kk == 3:
                return '"|".join(%s.splitlines())' % e(STR)
            if kk == 4:
                return '("%%s" %% %s)' % e(self.ch([INT, STR, LI]))
            return '"{0}{1}{0}".format(%s, %s)' % (e(STR), e(INT))
        if ty == BOOL:
            k = r.randrange(14)
            if k < 4:
                t = self.ch([INT, INT, STR, LI, TIS])
                return "(%s %s %s)" % (e(t), self.ch(["==", "!=", "<", "<=", ">", ">="]), e(t))
            if k == 4:
                return "(%s %s %s)" % (e(INT), self.ch(["in", "not in"]), e(LI))
            if k == 5:
                return "(%s %s %s)" % (self.qs(self.ch(KEYS)), self.ch(["in", "not in"]), e(DSI))
            if k == 6:
                return "(%s in %s)" % (self.qs(self.ch(["a", "b", "", "ab"])), e(STR))
            if k == 7:
                return "(not %s)" % e(BOOL)
            if k == 8:
                return "(%s %s %s)" % (e(BOOL), self.ch(["and", "or"]), e(BOOL))
            if k == 9:
                return "%s.%s(%s)" % (e(STR), self.ch(["startswith", "endswith"]), self.qs(self.ch(["a", "b", "", "ab"])))
            if k == 10:
                return "%s.%s()" % (e(STR), self.ch(["isdigit", "isalpha", "isalnum", "islower", "isupper", "isspace", "istitle"]))
            if k == 11:
                return "%s([x > %s for x in %s])" % (self.ch(["any", "all"]), e(INT), e(LI))
            if k == 12:
                return "bool(%s)" % e(self.ch([INT, STR, LI, DSI]))
            return "(%s == %s)" % (e(DSI), e(DSI))
        if ty == LI:
            k = r.randrange(18)
            if k < 2:
                return "(%s + %s)" % (e(LI), e(LI))
            if k == 2:
                return "(%s * (%s %% 3))" % (e(LI), e(INT))
            if k == 3:
                if self.p(0.5):
                    return "%s[%s:%s:%s]" % (e(LI), self.bound(sc, d), self.bound(sc, d), self.stride(sc, d))
                return "%s[%s:%s]" % (e(LI), self.ch(["", "1", "-2", "0"]), self.ch(["", "3", "-1", "100"]))
            if k == 4:
                return "%s[%s:%s:%d]" % (e(LI), self.ch(["", "1", "-1", "5"]), self.ch(["", "0", "-1", "4"]), self.ch([-3, -2, -1, 1, 2]))
            if k == 5:
                return "sorted(%s)" % e(LI)
            if k == 6:
                return "sorted(%s, key=lambda x: %s, reverse=%s)" % (e(LI), self.ch(["-x", "x % 3", "abs(x - 4)", "x // 2"]), self.ch(["True", "False"]))
            if k == 7:
                a, b, c = r.randint(-3, 5), r.randint(-3, 10), self.ch([1, 1, 2, 3, -1, -2])
                return "list(range(%d, %d, %d))" % (a, b, c)
            if k == 8:
                return "[%s for x in %s%s]" % (self.ch(["x", "x + 1", "x * x", "-x", "x % 3", "x // 2"]), e(LI), self.ch(["", " if x % 2 == 0", " if x > 1", " if x != 3"]))
            if k == 9:
                return "list(reversed(%s))" % e(LI)
            if k == 10:
                return "list(%s.values())" % e(DSI)
            if k == 11:
                return "list(%s.keys())" % e(DIS)
            if k == 12:
                return "[%s, %s]" % (e(INT), e(INT))
            if k == 13:
                ll = e(LLI)
                return "(%s + [[]])[%s %% (len(%s) + 1)]" % (ll, e(INT), ll)
            if k == 14:
                return "[x + y for x in %s[:5] for y in %s[:5]]" % (e(LI), e(LI))
            if k == 15:
                return "[len(s) for s in %s]" % e(LS)
            if k == 16:
                return "[i * v for i, v in enumerate(%s)]" % e(LI)
            kk = r.randrange(5)
            if kk == 0:
                return "[a + b * c for a, b, c in zip(%s, %s, %s)]" % (e(LI), e(LI), e(LI))
            if kk == 1:
                return "[i + v for i, v in enumerate(%s, %d)]" % (e(LI), r.randint(-2, 5))
            if kk == 2:
                return "sorted(%s, key=abs)" % e(LI)
            if kk == 3:
                return "list(%s + (%s,))" % ("(1, 2)", e(INT))
            return "[a - b for a, b in zip(%s, %s)]" % (e(LI), e(LI))
        if ty == LS:
            k = r.randrange(10)
            if k == 0:
                return "(%s + %s)" % (e(LS), e(LS))
            if k == 1:
                return "%s.split(%s)" % (e(STR), self.qs(self.ch([",", " ", "a", "b"])))
            if k == 2:
                return "%s.split()" % e(STR)
            if k == 3:
                return "sorted(%s)" % e(LS)
            if k == 4:
                return "list(%s.keys())" % e(DSI)
            if k == 5:
                return "[str(x) for x in %s]" % e(LI)
            if k == 6:
                return "[s.upper() for s in %s if s]" % e(LS)
            if k == 7:
                return "list(%s.values())" % e(DIS)
            if k == 8:
                return "%s.%s(%s, %d)" % (e(STR), self.ch(["split", "rsplit"]), self.qs(self.ch([",", "a", " "])), r.randint(0, 2))
            return "[%s, %s]" % (e(STR), e(STR))
        if ty == DSI:
            k = r.randrange(7)
            if k == 0:
                return "dict(zip(%s, %s))" % (e(LS), e(LI))
            if k == 1:
                return "{s: len(s) for s in %s}" % e(LS)
            if k == 2:
                return "dict(%s)" % e(DSI)
            if k == 3:
                return "dict(%s, %s=%s)" % (e(DSI), self.ch(KEYS), e(INT))
            if k == 4:
                return "(%s | %s)" % (e(DSI), e(DSI))
            if k == 5:
                return "{k: v + 1 for k, v in %s.items()}" % e(DSI)
            return "{%s: %s}" % (e(STR), e(INT))
        if ty == DIS:
            k = r.randrange(4)
            if k == 0:
                return "dict([(i, str(i)) for i in %s])" % e(LI)
            if k == 1:
                return "{v: k for k, v in %s.items()}" % e(DSI)
            if k == 2:
                return "dict(enumerate(%s))" % e(LS)
            return "{%s: %s}" % (e(INT), e(STR))
        if ty == TIS:
            return "(%s, %s)" % (e(INT), e(STR))
        if ty == LLI:
            k = r.randrange(4)
            if k == 0:
                return "[%s, %s]" % (e(LI), e(LI))
            if k == 1:
                return "[list(range(i)) for i in range(%d)]" % r.randint(0, 4)
            if k == 2:
                return "[[x, x * 2] for x in %s]" % e(LI)
            return "(%s + %s)" % (e(LLI), e(LLI))
        raise ValueError(ty)

    def bound(self, sc, d):
        """A slice bound: absent, literal, or a run-time value in a small range."""
        k = self.r.randrange(4)
        if k == 0:
            return ""
        if k == 1:
            return str(self.r.randint(-5, 6))
        return "((%s) %% 9 - 4)" % self.expr(sc, INT, d + 1)

    def stride(self, sc, d):
        k = self.r.randrange(4)
        if k == 0:
            return ""
        if k == 1:
            return str(self.ch([-3, -2, -1, 1, 2, 3]))
        return "(((%s) %% 3 + 1) * %s)" % (self.expr(sc, INT, d + 1), self.ch(["1", "-1", "(1 if %s else -1)" % self.expr(sc, BOOL, d + 1)]))

    def call(self, sc, f, d):
        """Call expression of Fn f with generated arguments (positional / named mix)."""
        args = []
        named = False
        for i, (pn, pt, has_def) in enumerate(f.params):
            if has_def and self.p(0.4):
                named = True  # everything after must be named or omitted
                continue
            a = self.expr(sc, pt, d + 1)
            if named or self.p(0.15):
                named = True
                args.append("%s=%s" % (pn, a))
            else:
                args.append(a)
        return "%s(%s)" % (f.name, ", ".join(args))

    # ---- statements
    def block(self, sc, indent, n):
        """Generate n statements into the scope at this indent. Always at least one line."""
        start = len(self.lines)
        for _ in range(n):
            if self.nstmts >= self.max_stmts:
                break
            self.stmt(sc, indent)
        if len(self.lines) == start:
            self.emit_line(indent, "pass")

    def new_var_stmt(self, sc, indent, ty=None):
        ty = ty or self.ch(ALL_TYPES)
        name = self.fresh_var()
        ex = self.expr(sc, ty)
        group = None
        if ty in MUTABLE:
            # the new value may alias (or contain) any mutable variable mentioned in the expression:
            # conservatively put them all in one alias group
            group = self.fresh_group()
            for g in self.mentioned(sc, ex):
                self.union(group, g)
        self.emit_line(indent, "%s = %s" % (name, ex))
        sc.vars.append(Var(name, ty, group))
        return name

    def mutate_ok(self, sc, v):
        if self.is_locked(sc, v.group):
            return False
        if self.cur_fn_mut_groups is not None and v.group is not None:
            # mutation of a captured (outer) container from inside a function is recorded
            fs = sc.fn_scope()
            own = set()
            s = sc
            while s:
                own.update(x.name for x in s.vars)
                if s is fs:
                    break
                s = s.parent
            if v.name not in own:
                self.cur_fn_mut_groups.add(v.group)
        # a parameter of this or of any enclosing function that gets mutated is recorded as such
        for d, groups in self.param_stack:
            for pname, g in groups.items():
                if pname == v.name or (g is not None and self.find(g) == self.find(v.group)):
                    d[pname] = True
        return True

    def stmt(self, sc, indent):
        r = self.r
        self.nstmts += 1
        k = r.randrange(100)
        e = lambda t: self.expr(sc, t)
        if k < 22 or not sc.all_vars():
            name = self.new_var_stmt(sc, indent)
            if self.p(0.5):
                self.emit_line(indent, "emit(%s)" % name)
            return
        if k < 30:
            # rebinding / augmented assignment of scalars
            cands = [v for v in sc.all_vars() if v.ty in (INT, STR)]
            own = [v for v in cands if self.is_own(sc, v) and not v.const]
            if own:
                v = self.ch(own)
                # statements that can grow a value geometrically are only generated outside loops/functions
                growth_ok = sc.loop_depth == 0 and sc.fn_scope() is None
                if self.p(0.5):
                    ops = ["+=", "-=", "//=", "%=", "&=", "|=", "^="] + (["*="] if growth_ok else [])
                    op = self.ch(ops) if v.ty == INT else "+="
                    rhs = e(v.ty)
                    if op in ("//=", "%="):
                        rhs = "(abs(%s) + 1)" % rhs
                    if v.ty == STR and not growth_ok:
                        self.emit_line(indent, "%s = (%s + %s)[:40]" % (v.name, v.name, rhs))
                    else:
                        self.emit_line(indent, "%s %s %s" % (v.name, op, rhs))
                elif growth_ok or v.ty == INT:
                    self.emit_line(indent, "%s = %s" % (v.name, e(v.ty) if growth_ok else "(%s) %% 1000003" % e(v.ty)))
                else:
                    self.emit_line(indent, "%s = (%s)[:40]" % (v.name, e(v.ty)))
                if self.p(0.4):
                    self.emit_line(indent, "emit(%s)" % v.name)
                return
        if k < 48:
            # container mutation
            cands = [v for v in sc.all_vars() if v.ty in MUTABLE and not self.is_locked(sc, v.group)]
            if cands and not self.no_mutation:
                v = self.ch(cands)
                if self.mutate_ok(sc, v):
                    self.mutation(sc, indent, v)
                    if self.p(0.6):
                        self.emit_line(indent, "emit(%s)" % v.name)
                    return
        if k < 58:
            self.if_stmt(sc, indent)
            return
        if k < 70:
            self.for_stmt(sc, indent)
            return
        if k < 78 and indent <= 2:
            self.def_stmt(sc, indent)
            return
        if k < 82:
            # tuple unpack
            a, b = self.fresh_var(), self.fresh_var()
            kk = r.randrange(8)
            if kk < 3:
                self.emit_line(indent, self.ch(["%s, %s = %s", "(%s, %s) = %s", "[%s, %s] = %s"]) % (a, b, e(TIS)))
                sc.vars.append(Var(a, INT, None))
                sc.vars.append(Var(b, STR, None))
            elif kk == 3:
                # unpacking a dict binds its keys
                k1, k2 = r.sample(KEYS, 2)
                self.emit_line(indent, "%s, %s = {%s: %s, %s: %s}" % (a, b, self.qs(k1), e(INT), self.qs(k2), e(INT)))
                sc.vars.append(Var(a, STR, None))
                sc.vars.append(Var(b, STR, None))
            elif kk == 4:
                self.emit_line(indent, "%s, %s = {%d: %s, %d: %s}" % (a, b, r.randint(0, 4), e(STR), r.randint(5, 9), e(STR)))
                sc.vars.append(Var(a, INT, None))
                sc.vars.append(Var(b, INT, None))
            elif kk == 5:
                c = self.fresh_var()
                self.emit_line(indent, "%s, %s, %s = [%s, %s, %s]" % (a, b, c, e(INT), e(INT), e(INT)))
                for n_ in (a, b, c):
                    sc.vars.append(Var(n_, INT, None))
            elif kk == 6:
                c = self.fresh_var()
                self.emit_line(indent, "%s, (%s, %s) = (%s, (%s, %s))" % (a, b, c, e(STR), e(INT), e(STR)))
                sc.vars.append(Var(a, STR, None))
                sc.vars.append(Var(b, INT, None))
                sc.vars.append(Var(c, STR, None))
            else:
                # destructuring in a loop / comprehension over dicts binds keys too
                k1, k2 = r.sample(KEYS, 2)
                d = "{%s: %s, %s: %s}" % (self.qs(k1), e(INT), self.qs(k2), e(INT))
                self.emit_line(indent, "%s = [%s + %s for %s, %s in [%s, %s]]" % (a, "ka_", "kb_", "ka_", "kb_", d, d))
                sc.vars.append(Var(a, LS, self.fresh_group()))
            return
        if k < 84 and indent <= 2:
            # a local that is captured by a nested function and then updated by augmented assignment in a loop
            t, sh, i_ = self.fresh_var(), self.fresh_var("sh"), self.fresh_var("i")
            self.emit_line(indent, "%s = %s" % (t, e(INT)))
            if self.p(0.5):
                self.emit_line(indent, "def %s():" % sh)
                self.emit_line(indent + 1, "return %s" % t)
            else:
                self.emit_line(indent, "%s = lambda: %s" % (sh, t))
            self.emit_line(indent, "for %s in range(%d):" % (i_, r.randint(0, 3)))
            self.emit_line(indent + 1, "%s %s %s" % (t, self.ch(["+=", "-=", "*=", "|=", "^="]), self.ch([i_, "(%s + 1)" % i_, "%s()" % sh])))
            self.emit_line(indent + 1, "emit(%s)" % t)
            self.emit_line(indent, "emit(%s())" % sh)
            sc.vars.append(Var(t, INT, None))
            return
        if k < 86 and sc.loop_depth > 0:
            self.emit_line(indent, "if %s:" % e(BOOL))
            self.emit_line(indent + 1, self.ch(["break", "continue"]))
            return
        if k < 90 and sc.fn_scope() is not None and self.cur_ret is not None:
            self.emit_line(indent, "if %s:" % e(BOOL))
            self.emit_line(indent + 1, "return %s" % e(self.cur_ret))
            return
        # emit of several expressions
        n = r.randint(1, 3)
        self.emit_line(indent, "emit(%s)" % ", ".join(e(self.ch(ALL_TYPES)) for _ in range(n)))

    cur_ret = None

    def is_own(self, sc, v):
        """Is v assigned in the current function (or module) scope - i.e. rebinding it is allowed?"""
        fs = sc.fn_scope()
        s = sc
        while s:
            if any(x is v for x in s.vars):
                return True
            if s is fs:
                return False
            s = s.parent
        return False

    def mutation(self, sc, indent, v):
        r = self.r
        e = lambda t: self.expr(sc, t)
        n = v.name
        if v.ty in (LI, LS):
            et = INT if v.ty == LI else STR
            k = r.randrange(11)
            if k < 3:
                self.emit_line(indent, "%s.append(%s)" % (n, e(et)))
            elif k == 3:
                self.emit_line(indent, "%s.extend(%s[:6])" % (n, e(v.ty)))
            elif k == 4:
                self.emit_line(indent, "%s.insert((%s) %% 9 - 4, %s)" % (n, e(INT), e(et)))
            elif k == 5:
                if self.p(self.risk * 5):
                    self.emit_line(indent, "emit(%s.pop())" % n)
                else:
                    self.emit_line(indent, "if %s:" % n)
                    self.emit_line(indent + 1, "emit(%s.pop(%s))" % (n, self.ch(["", "0", "len(%s) - 1" % n])))
            elif k == 6:
                x = e(et)
                self.emit_line(indent, "if %s in %s:" % (x, n))
                self.emit_line(indent + 1, "%s.remove(%s)" % (n, x))
            elif k == 7:
                if self.is_own(sc, v):
                    self.emit_line(indent, "%s += %s[:6]" % (n, e(v.ty)))
                else:
                    self.emit_line(indent, "%s.extend(%s[:6])" % (n, e(v.ty)))
            elif k == 8:
                if self.p(self.risk * 5):
                    self.emit_line(indent, "%s[%s] = %s" % (n, e(INT), e(et)))
                else:
                    self.emit_line(indent, "if %s:" % n)
                    self.emit_line(indent + 1, "%s[%s %% len(%s)] = %s" % (n, e(INT), n, e(et)))
            elif k == 9 and v.ty == LI:
                self.emit_line(indent, "if %s:" % n)
                if self.p(0.5):
                    # the element is loaded before the right-hand side runs, although the right-hand side changes it
                    i = self.ch(["0", "-1", "len(%s) // 2" % n])
                    self.emit_line(indent + 1, "%s[%s] %s bump(%s, %s)" % (n, i, self.ch(["+=", "-=", "*="]), n, i))
                else:
                    self.emit_line(indent + 1, "%s[%s %% len(%s)] %s %s" % (n, e(INT), n, self.ch(["+=", "-=", "*="]), e(INT)))
            else:
                if self.p(0.3):
                    self.emit_line(indent, "%s.clear()" % n)
                else:
                    self.emit_line(indent, "%s.append(%s)" % (n, e(et)))
        elif v.ty in (DSI, DIS):
            kt, vt = (STR, INT) if v.ty == DSI else (INT, STR)
            kx = (lambda: self.qs(self.ch(KEYS))) if v.ty == DSI else (lambda: str(r.randint(0, 8)))
            k = r.randrange(9)
            if k < 3:
                self.emit_line(indent, "%s[%s] = %s" % (n, kx() if self.p(0.7) else e(kt), e(vt)))
            elif k == 3:
                self.emit_line(indent, "%s.update(%s)" % (n, e(v.ty)))
            elif k == 4:
                self.emit_line(indent, "emit(%s.setdefault(%s, %s))" % (n, kx(), e(vt)))
            elif k == 5:
                self.emit_line(indent, "emit(%s.pop(%s, %s))" % (n, kx(), e(vt)))
            elif k == 6 and v.ty == DSI:
                key = kx()
                if self.p(self.risk * 5):
                    self.emit_line(indent, "%s[%s] += %s" % (n, key, e(INT)))
                elif self.p(0.4):
                    self.emit_line(indent, "if %s in %s:" % (key, n))
                    self.emit_line(indent + 1, "%s[%s] += bump(%s, %s)" % (n, key, n, key))
                else:
                    self.emit_line(indent, "%s[%s] = %s.get(%s, 0) + %s" % (n, key, n, key, e(INT)))
            elif k == 7 and v.ty == DSI:
                self.emit_line(indent, "%s.update(%s=%s)" % (n, self.ch(KEYS), e(INT)))
            else:
                if self.p(0.25):
                    self.emit_line(indent, "%s.clear()" % n)
                elif self.is_own(sc, v):
                    self.emit_line(indent, "%s |= %s" % (n, e(v.ty)))
                else:
                    self.emit_line(indent, "%s.update(%s)" % (n, e(v.ty)))
        elif v.ty == LLI:
            k = r.randrange(4)
            if k == 0:
                self.emit_line(indent, "%s.append(%s)" % (n, self.stored(sc, v, e(LI))))
            elif k == 1:
                self.emit_line(indent, "if %s:" % n)
                self.emit_line(indent + 1, "%s[%s %% len(%s)].append(%s)" % (n, e(INT), n, e(INT)))
            elif k == 2:
                self.emit_line(indent, "if %s:" % n)
                self.emit_line(indent + 1, "%s[-1] = %s" % (n, self.stored(sc, v, e(LI))))
            else:
                self.emit_line(indent, "if %s and %s[0]:" % (n, n))
                self.emit_line(indent + 1, "%s[0][0] += %s" % (n, e(INT)))

    def stored(self, sc, container, ex):
        """Expression `ex` is about to be stored inside `container`: record the aliasing it creates
        (module level) or store a copy (inside functions, where parameters make aliasing untrackable)."""
        gs = self.mentioned(sc, ex)
        if not gs:
            return ex
        if self.cur_fn_mut_groups is not None or self.groups_locked(sc, gs):
            return "list(%s)" % ex
        for g in gs:
            self.union(container.group, g)
        return ex

    def if_stmt(self, sc, indent):
        self.emit_line(indent, "if %s:" % self.expr(sc, BOOL))
        self.block(Scope(sc), indent + 1, self.r.randint(1, 3))
        if self.p(0.3):
            self.emit_line(indent, "elif %s:" % self.expr(sc, BOOL))
            self.block(Scope(sc), indent + 1, self.r.randint(1, 2))
        if self.p(0.5):
            self.emit_line(indent, "else:")
            self.block(Scope(sc), indent + 1, self.r.randint(1, 2))

    def for_stmt(self, sc, indent):
        r = self.r
        inner = Scope(sc)
        inner.loop_depth = sc.loop_depth + 1
        k = r.randrange(8)
        x = self.fresh_var("i")
        if k < 2:
            self.emit_line(indent, "for %s in range(%d):" % (x, r.randint(0, 5)))
            inner.vars.append(Var(x, INT, None))
        elif k == 2:
            self.emit_line(indent, "for %s in range(%s %% 5):" % (x, self.expr(sc, INT)))
            inner.vars.append(Var(x, INT, None))
        elif k < 5:
            # iterate directly over a container variable: lock its alias group inside the body
            ty = self.ch([LI, LS, LLI])
            vs = self.vars_of(sc, ty)
            if vs:
                v = self.ch(vs)
                self.emit_line(indent, "for %s in %s:" % (x, v.name))
                inner.locked.add(self.find(v.group))
                inner.vars.append(Var(x, {LI: INT, LS: STR, LLI: LI}[ty], v.group if ty == LLI else None))
            else:
                self.emit_line(indent, "for %s in %s:" % (x, self.expr(sc, ty)))
                inner.vars.append(Var(x, {LI: INT, LS: STR, LLI: LI}[ty], self.fresh_group() if ty == LLI else None))
                if ty == LLI:
                    inner.locked.add(inner.vars[-1].group)
        elif k == 5:
            vs = self.vars_of(sc, DSI)
            y = self.fresh_var("i")
            if vs:
                v = self.ch(vs)
                self.emit_line(indent, "for %s, %s in %s.items():" % (x, y, v.name))
                inner.locked.add(self.find(v.group))
            else:
                self.emit_line(indent, "for %s, %s in %s.items():" % (x, y, self.expr(sc, DSI)))
            inner.vars.append(Var(x, STR, None))
            inner.vars.append(Var(y, INT, None))
        elif k == 6:
            vs = self.vars_of(sc, DSI)
            if vs:
                v = self.ch(vs)
                self.emit_line(indent, "for %s in %s:" % (x, v.name))
                inner.locked.add(self.find(v.group))
            else:
                self.emit_line(indent, "for %s in %s:" % (x, self.expr(sc, DSI)))
            inner.vars.append(Var(x, STR, None))
        else:
            y = self.fresh_var("i")
            self.emit_line(indent, "for %s, %s in enumerate(%s):" % (x, y, self.expr(sc, LS)))
            inner.vars.append(Var(x, INT, None))
            inner.vars.append(Var(y, STR, None))
        # Lock every container mentioned in the loop header: mutating the iterated value (possibly
        # through a lazy view such as enumerate/items) is outside the shared subset.
        header = self.lines[-1][1]
        inner.locked |= self.mentioned(sc, header)
        self.block(inner, indent + 1, r.randint(1, 4))

    def def_stmt(self, sc, indent):
        r = self.r
        self.nf += 1
        name = "f%d" % self.nf
        nparams = r.randint(0, 3)
        params = []
        seen_default = False
        ptexts = []
        inner = Scope(sc, is_fn=True)
        inner.locked = set(sc.locked)
        for i in range(nparams):
            pn = "p%d_%d" % (self.nf, i)
            pt = self.ch([INT, INT, STR, LI, DSI, BOOL, LS])
            has_def = seen_default or self.p(0.3)
            if has_def:
                seen_default = True
                # defaults are evaluated once at def time; immutable literals or comprehension capturing loop vars
                dv = self.expr(sc, pt, self.max_depth - 1) if pt not in MUTABLE else self.lit(pt)
                ptexts.append("%s=%s" % (pn, dv))
            else:
                ptexts.append(pn)
            params.append((pn, pt, has_def))
            inner.vars.append(Var(pn, pt, self.fresh_group() if pt in MUTABLE else None))
        ret = self.ch([INT, INT, STR, LI, BOOL, DSI, TIS])
        recursive = self.p(0.2)
        if recursive:
            ptexts.insert(0, "fuel")
        def_line = len(self.lines)
        self.emit_line(indent, "def %s(%s):" % (name, ", ".join(ptexts)))
        saved = (self.cur_fn_mut_groups, self.cur_fn_params, self.cur_ret)
        self.cur_fn_mut_groups = set()
        self.cur_fn_params = {p[0]: False for p in params}
        self.param_stack.append((self.cur_fn_params, {x.name: x.group for x in inner.vars}))
        self.cur_ret = ret
        if recursive:
            inner.vars.append(Var("fuel", INT, None, const=True))
            self.emit_line(indent + 1, "if fuel <= 0:")
            self.emit_line(indent + 2, "return %s" % self.expr(inner, ret))
        self.block(inner, indent + 1, r.randint(1, 4))
        if recursive:
            # recursive call with the same arguments, less fuel
            args = ["fuel - 1"] + [p[0] for p in params]
            rc = "%s(%s)" % (name, ", ".join(args))
            if ret == INT:
                self.emit_line(indent + 1, "return %s + %s" % (self.expr(inner, INT), rc))
            elif ret in (STR, LI):
                self.emit_line(indent + 1, "return %s + %s" % (rc, self.expr(inner, ret)))
            else:
                self.emit_line(indent + 1, "return %s" % rc)
        else:
            self.emit_line(indent + 1, "return %s" % self.expr(inner, ret))
        f = Fn(name, params, ret, [i for i, p in enumerate(params) if self.cur_fn_params[p[0]]], set(self.cur_fn_mut_groups))
        body_text = "\n".join(t for _, t in self.lines[def_line:])
        f.captured = self.mentioned(sc, body_text)
        # a function that mutates captured containers also counts for the enclosing function
        mg = set(self.cur_fn_mut_groups)
        self.param_stack.pop()
        self.cur_fn_mut_groups, self.cur_fn_params, self.cur_ret = saved
        if self.cur_fn_mut_groups is not None:
            self.cur_fn_mut_groups |= mg
        if recursive:
            f.params = [("fuel", INT, False)] + f.params
            f.mut_params = [i + 1 for i in f.mut_params]
            # register with a bounded fuel literal: wrap through a lambda-free helper
            self.nf += 1
            wname = "f%d" % self.nf
            inner_params = ", ".join(p[0] for p in params)
            self.emit_line(indent, "def %s(%s):" % (wname, inner_params))
            self.emit_line(indent + 1, "return %s(%s)" % (name, ", ".join([str(r.randint(0, 6))] + [p[0] for p in params])))
            cap = f.captured
            f = Fn(wname, [(pn, pt, False) for (pn, pt, _) in params], ret, f.mut_params and [i - 1 for i in f.mut_params], f.mut_groups)
            f.captured = cap
        if f.mut_params:
            # calls must pass unlocked, own containers: handled in call_stmt; not usable in pure expressions
            pass
        sc.fns.append(f)
        # use it right away sometimes
        if self.p(0.7):
            self.call_stmt(sc, indent, f)

    def call_stmt(self, sc, indent, f):
        if self.groups_locked(sc, f.mut_groups):
            return
        if self.cur_fn_mut_groups is not None:
            self.cur_fn_mut_groups |= f.mut_groups
        args = []
        used = set(self.find(g) for g in f.captured)
        for i, (pn, pt, has_def) in enumerate(f.params):
            if i in (f.mut_params or []):
                # a mutated parameter gets a variable that aliases neither another argument nor anything
                # the function captures, or else a fresh literal
                cands = [v for v in self.vars_of(sc, pt, unlocked=True) if self.find(v.group) not in used]
                if not cands:
                    args.append(self.lit(pt))
                else:
                    v = self.ch(cands)
                    self.mutate_ok(sc, v)
                    used.add(self.find(v.group))
                    args.append(v.name)
            else:
                a = self.expr(sc, pt, 1)
                if pt in MUTABLE and (self.mentioned(sc, a) & used or f.mut_params):
                    a = ("list(%s)" if pt in (LI, LS, LLI) else "dict(%s)") % a
                args.append(a)
        self.emit_line(indent, "emit(%s(%s))" % (f.name, ", ".join(args)))

    # ---- failure injection
    FAILS = [
        "emit(1 // 0)",
        "emit([1, 2][5])",
        "emit({\"a\": 1}[\"zz9\"])",
        "emit(1 + \"a\")",
        "emit(\"a\" + 1)",
        "emit(len(5))",
        "emit(int(\"x1\"))",
        "emit([].pop())",
        "emit(\"abc\".index(\"z\"))",
        "emit([1, 2].index(7))",
        "emit({}.pop(\"k\"))",
        "emit(1 % 0)",
        "emit(1 << -1)",
        "emit((1, 2)[2])",
        "emit(undefined_fn_arity(1))",
        "emit(None + 1)",
        "emit([1] < [\"a\"])",
        "emit(sorted([1, \"a\"]))",
        "emit({[1]: 2})",
        "emit(list(range(3, 1, 0)))",
        "emit(max([]))",
        "fail(\"boom\")",
        "emit(\"%d\" % \"x\")",
        "emit(\"abc\"[10])",
        "{\"a\": 1}[\"zz9\"] += 1 // 0",
        "[1, 2][5] += len(5)",
        "emit(tk(0, 1) // tk(0, 0), tk(0, [])[3])",
        "emit([tk(0, 1), tk(0, 2)][tk(0, 7)])",
        "emit({tk(0, \"a\"): tk(0, 1)}[tk(0, \"b\")])",
    ]

    # ---- program
    def program(self, pre_lines=None, pre_vars=None, pre_fns=None):
        """Generate the statement list; returns list of (indent, text).
        pre_lines/pre_vars/pre_fns: statements (e.g. load) that bind frozen, immutable values and pure functions."""
        sc = Scope()
        self.top_scope = sc
        self.lines = []
        for l in pre_lines or []:
            self.emit_line(0, l)
        for v in pre_vars or []:
            g = None
            if v.ty in MUTABLE or v.group is not None:
                g = self.fresh_group()
                sc.locked.add(g)  # frozen: never mutated by generated code
            sc.vars.append(Var(v.name, v.ty, g, const=True))
        for f in pre_fns or []:
            sc.fns.append(f)
        self.emit_line(0, "def undefined_fn_arity():")
        self.emit_line(1, "return 0")
        self.emit_line(0, "def tk(n, x):")
        self.emit_line(1, "emit(\"tk\", n)")
        self.emit_line(1, "return x")
        self.emit_line(0, "def bump(c, k):")
        self.emit_line(1, "c[k] = c[k] + 100")
        self.emit_line(1, "return 1")
        # a few initial variables of every kind so expressions have material
        for ty in [INT, STR, LI, DSI, LS, LLI, DIS, TIS, BOOL]:
            self.new_var_stmt(sc, 0, ty)
        n = self.r.randint(self.max_stmts // 3, self.max_stmts)
        while self.nstmts < n:
            self.stmt(sc, 0)
        for v in sc.all_vars():
            if self.p(0.5):
                self.emit_line(0, "emit(%s)" % v.name)
        if self.p(self.inject_fail):
            # insert a failing statement after a random existing line, at that line's indentation
            cands = [i for i, (ind, t) in enumerate(self.lines) if i > 12 and not t.endswith(":")]
            if cands:
                i = self.ch(cands)
                ind = self.lines[i][0]
                self.lines.insert(i + 1, (ind, self.ch(self.FAILS)))
        return self.lines


def gen_unassigned(rng):
    """A function whose locals are assigned only on some paths (branches, possibly empty loops, break/continue)
    and read later - directly, inside comprehension clauses at every position, through lambdas and nested defs,
    by augmented assignment - plus one call of it. Python decides whether and where 'referenced before
    assignment' is raised; the compiler's definitely-assigned analysis must never turn that into anything else."""
    L = []
    ys = ["y0", "y1", "i", "j"]
    focus = rng.choice(ys[:2])  # most reads concern one variable, so that it is read again after a read that did not fail

    def read(y):
        return rng.choice([
            "acc.append(len(%s))" % y, "acc.append([a + b for a in xs for b in %s])" % y, "acc.append([a for a in %s for b in xs])" % y,
            "acc.append([a for a in xs if %s])" % y, "acc.append([len(%s) for a in zs])" % y, "acc.append({a: %s for a in xs})" % y,
            "acc.append([a + b + c for a in xs for b in zs for c in %s])" % y, "acc.append([b for a in zs for b in (%s if a else [0])])" % y,
            "acc.append((lambda: %s)())" % y, "acc.append((lambda k=1: [k, %s])())" % y, "%s += [7]" % y, "acc.append(%s if c2 else 0)" % y,
            "acc.append(c2 or %s)" % y, "acc.append([x for x in [1] if c1 and %s])" % y,
        ])

    def block(ind, depth, in_loop):
        n = rng.randint(1, 3)
        for _ in range(n):
            k = rng.randrange(12)
            pad = "    " * ind
            if k < 3:
                L.append(pad + "%s = [%d, %d]" % (rng.choice(ys[:2]), rng.randint(0, 5), rng.randint(0, 5)))
            elif k < 6:
                L.append(pad + read((focus if rng.random() < 0.7 else rng.choice(ys[:2])) if rng.random() < 0.85 else "[%s]" % rng.choice(ys[2:])))
            elif k < 8 and depth < 3:
                L.append(pad + "if %s:" % rng.choice(["c0", "c1", "c2", "not c0", "c0 and c1", "xs"]))
                block(ind + 1, depth + 1, in_loop)
                if rng.random() < 0.5:
                    L.append(pad + "else:")
                    block(ind + 1, depth + 1, in_loop)
            elif k < 10 and depth < 3:
                L.append(pad + "for %s in %s:" % (rng.choice(ys[2:]), rng.choice(["xs", "zs", "range(len(xs))"])))
                block(ind + 1, depth + 1, True)
            elif k == 10 and in_loop:
                L.append(pad + "if %s:" % rng.choice(["c0", "c1", "c2"]))
                L.append(pad + "    " + rng.choice(["break", "continue"]))
            else:
                y = rng.choice(ys[:2])
                L.append(pad + "def inner_%d():" % len(L))
                L.append(pad + "    return %s" % y)
                L.append(pad + "acc.append(inner_%d())" % (len(L) - 2))
    L.append("def mu(c0, c1, c2, xs, zs):")
    L.append("    acc = []")
    block(1, 0, False)
    L.append("    " + read(focus))
    L.append("    acc.append(len(%s))" % focus)
    # every name read is a local of mu in both languages (a name bound nowhere would be a *static* error in Starlark)
    body = "\n".join(L)
    for y in ys[:2]:
        if not re.search(r"\b%s (=|\+=) " % y, body):
            L.append("    if c0 and not c0:")
            L.append("        %s = []" % y)
    for y in ys[2:]:
        if ("for %s in" % y) not in body:
            L.append("    for %s in []:" % y)
            L.append("        pass")
    L.append("    return acc")
    args = ", ".join([rng.choice(["True", "False"]) for _ in range(3)] + [rng.choice(["[]", "[]", "[1]", "[1, 2]", "[0]"]) for _ in range(2)])
    L.append("emit(\"start\")")
    L.append("emit(mu(%s))" % args)
    return "\n".join(L) + "\n"


def render(lines, module_level=True):
    if module_level:
        return "".join("    " * ind + t + "\n" for ind, t in lines)
    out = ["def main():\n"]
    for ind, t in lines:
        out.append("    " * (ind + 1) + t + "\n")
    out.append("main()\n")
    return "".join(out)


def gen_program(rng, **kw):
    g = Gen(rng, **kw)
    return g.program()


if __name__ == "__main__":
    import sys
    rng = random.Random(int(sys.argv[1]) if len(sys.argv) > 1 else 1)
    sys.stdout.write(render(gen_program(rng), module_level=(len(sys.argv) < 3)))
