"""C11: ordered maps/sets equal their list model under any history.
Deciding monitor: svmap (reference model + H3 invariant hook), native (stable + nightly/SIMD) and under Miri."""
import json
import os
import subprocess
import time
from concurrent.futures import ThreadPoolExecutor

import common
from common import BASE_ENV, HARNESS, NCPU, Report, log, seed, target_dir

MIRIFLAGS = "-Zmiri-tree-borrows"


def _run(cmd, env=None, timeout=3600, cwd=None):
    t0 = time.time()
    try:
        p = subprocess.run(cmd, env=env, cwd=cwd, stdout=subprocess.PIPE, stderr=subprocess.PIPE, timeout=timeout, text=True)
        return p.returncode, p.stdout, p.stderr, time.time() - t0
    except subprocess.TimeoutExpired as e:
        return "timeout", (e.stdout or b"").decode() if isinstance(e.stdout, bytes) else (e.stdout or ""), "", time.time() - t0


def miri_cmd(args):
    env = dict(BASE_ENV)
    env["RUSTFLAGS"] = "--cfg starlark_verif"
    env["CARGO_TARGET_DIR"] = target_dir("miri")
    env["MIRIFLAGS"] = MIRIFLAGS
    return ["cargo", "+nightly", "miri", "run", "--offline", "-q", "-p", "svmap", "--"] + args, env


def miri_build():
    """Compile (not run) the Miri flavor so that shards do not race on the build."""
    cmd, env = miri_cmd(["mode=none"])
    rc, out, err, dt = _run(cmd, env, cwd=HARNESS)
    if "unknown mode" not in err and rc != 2:
        raise common.BuildError("miri build/run of svmap failed:\n" + err[-3000:])
    log("[build] miri svmap ok in %.1fs" % dt)


def parse(out):
    summ = None
    viol = []
    for line in out.splitlines():
        line = line.strip()
        if not line.startswith("{"):
            continue
        try:
            j = json.loads(line)
        except Exception:
            continue
        if "violation" in j:
            viol.append(j)
        elif j.get("summary"):
            summ = j
    return summ, viol


def sig_of(v):
    msg = v["violation"]
    core = "".join(c for c in msg if not c.isdigit())[:80]
    return "%s:%s" % (v.get("container", "?"), core)


def run(tier):
    rep = Report("C11", tier)
    s = seed()
    jobs = []  # (label, flavor, args)
    thorough = tier == "thorough"
    nsh = NCPU
    # native random histories
    for flavor in ("dbg", "nightly"):
        for i in range(nsh):
            prof = ["mixed", "remove", "sort"][i % 3]
            jobs.append(("random/%s/%s" % (flavor, prof), flavor,
                         ["mode=random", "seed=%d" % (s * 1000 + i), "scripts=%d" % (1500 if thorough else 60),
                          "len=2000", "profile=" + prof]))
        for i in range(nsh):
            jobs.append(("other/%s" % flavor, flavor,
                         ["mode=other", "seed=%d" % (s * 1000 + i), "scripts=%d" % (4000 if thorough else 200), "len=400"]))
        L = (6 if flavor == "dbg" else 5) if thorough else 4
        for l in range(1, L + 1):
            n = nsh if l >= 4 else 1
            for sh in range(n):
                jobs.append(("exhaustive/%s/len%d" % (flavor, l), flavor,
                             ["mode=exhaustive", "len=%d" % l, "shard=%d" % sh, "nshards=%d" % n]))
    bins = {}
    for flavor in ("dbg", "nightly"):
        bins[flavor] = os.path.join(common.build(flavor, package="svmap"), "svmap")
    try:
        miri_build()
        miri_ok = True
    except common.BuildError as e:
        miri_ok = False
        rep.inconc("miri flavor unavailable", str(e)[-500:])
    miri_jobs = []
    if miri_ok:
        nm = 16 if not thorough else 96
        for i in range(nm):
            if i % 4 == 3:
                miri_jobs.append(("miri/other", ["mode=other", "seed=%d" % (s * 77 + i), "scripts=4", "len=%d" % (25 if not thorough else 60)]))
            else:
                miri_jobs.append(("miri/random", ["mode=random", "seed=%d" % (s * 77 + i), "scripts=1", "len=%d" % (55 if not thorough else 200),
                                                  "light=1", "nkeys=40", "prefill_below=%d" % (i % 3)]))

    totals = {"scripts": 0, "steps": 0, "index_builds": 0, "index_drops": 0, "panics_injected": 0, "distinct_states": 0}
    per_label = {}
    exhaustive_done = []

    def do_native(job):
        label, flavor, args = job
        rc, out, err, dt = _run([bins[flavor]] + args, timeout=7200)
        return job, rc, out, err, dt, [bins[flavor]] + args

    def do_miri(job):
        label, args = job
        cmd, env = miri_cmd(args)
        rc, out, err, dt = _run(cmd, env, timeout=3000 if thorough else 900, cwd=HARNESS)
        return (label, "miri", args), rc, out, err, dt, ["MIRIFLAGS=" + MIRIFLAGS] + cmd

    results = []
    with ThreadPoolExecutor(max_workers=NCPU) as ex:
        futs = [ex.submit(do_miri, j) for j in miri_jobs] + [ex.submit(do_native, j) for j in jobs]
        for f in futs:
            results.append(f.result())
    samples = []
    for (label, flavor, args), rc, out, err, dt, cmdline in results:
        summ, viol = parse(out)
        for v in viol:
            rep.violation(sig_of(v), "%s [%s]: %s" % (v.get("container"), label, v["violation"]), {"cmd": cmdline, "report": v})
        if rc == "timeout":
            rep.inconc("timeout", {"label": label, "args": args})
            continue
        if summ is None:
            if flavor == "miri" and ("Undefined Behavior" in err or "error:" in err):
                key = ""
                for line in err.splitlines():
                    if "Undefined Behavior" in line or line.startswith("error"):
                        key = line.strip()
                        break
                rep.violation("miri:" + key[:100], "Miri report in %s: %s" % (label, key), {"cmd": cmdline, "stderr": err[-4000:]})
            else:
                rep.violation("crash:%s" % label.split("/")[0], "svmap died rc=%r in %s: %s" % (rc, label, err[-300:]), {"cmd": cmdline, "stderr": err[-4000:]})
            continue
        for k in totals:
            totals[k] += summ.get(k, 0)
        d = per_label.setdefault(label, {"runs": 0, "steps": 0, "scripts": 0, "wall_s": 0.0})
        d["runs"] += 1
        d["steps"] += summ["steps"]
        d["scripts"] += summ["scripts"]
        d["wall_s"] = round(d["wall_s"] + dt, 1)
        if label.startswith("exhaustive") and summ.get("ok"):
            exhaustive_done.append(label)
        if len(samples) < 6 and label.split("/")[0] in ("random", "miri"):
            samples.append({"label": label, "args": args, "summary": summ})
    rep.coverage = {
        "evaluations": totals["steps"],
        "distinct_nontrivial": min(totals["distinct_states"], totals["steps"]),
        "rule": "evaluation = one operation (step of a script) executed side by side on the real container and the Vec model with all observations compared after it; "
                "distinct_nontrivial = number of distinct (model content, index present?) states reached by SmallMap scripts, summed over processes (each process dedups its own)",
        "scripts": totals["scripts"],
        "samples": samples,
        "steps_checked": totals["steps"],
        "index_builds_observed": totals["index_builds"],
        "index_drops_observed": totals["index_drops"],
        "panics_injected": totals["panics_injected"],
        "per_label": per_label,
        "exhaustive": False,
        "exhaustive_subspaces_completed": sorted(set(exhaustive_done)),
        "miri_flags": MIRIFLAGS,
    }
    rep.assumptions = [
        "the Vec model in svmap is the specification of insertion-ordered behaviour",
        "Miri runs use Tree Borrows: Stacked Borrows rejects sorting/insertion.rs slice_swap_shift (as_ptr then as_mut_ptr), an aliasing-model report outside this property",
        "after a panic in a user predicate/comparator only 'no invented or duplicated entries + internal consistency' is demanded",
    ]
    sane = totals["steps"] > 1000 and totals["index_builds"] > 0 and totals["index_drops"] > 0
    rep.finish(sanity_ok=sane, sanity_msg="svmap observed no index transitions / too few steps")


def replay(rep):
    w = rep["witness"]
    cmd = w["cmd"]
    env = dict(BASE_ENV)
    env["RUSTFLAGS"] = "--cfg starlark_verif"
    if cmd and cmd[0].startswith("MIRIFLAGS="):
        env["MIRIFLAGS"] = cmd[0].split("=", 1)[1]
        env["CARGO_TARGET_DIR"] = target_dir("miri")
        cmd = cmd[1:]
        p = subprocess.run(cmd, env=env, cwd=HARNESS)
    else:
        flavor = "nightly" if "/nightly/" in cmd[0] else "dbg"
        common.build(flavor, package="svmap")
        p = subprocess.run(cmd, env=env)
    return p.returncode
