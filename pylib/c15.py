"""C15: call-depth, tick and cancellation limits end evaluation with an error, exactly.
Limit model: (depth) a program whose maximal call depth D (measured by the evaluator's own frame counter at the deepest
point of an unlimited run) is <= the configured maximum is unaffected, one with D > maximum fails with StackOverflow;
(ticks) with budget B a program that needs N ticks succeeds iff N <= B, fails with <= B + 1000 ticks performed, N is
identical across runs and lies between structural bounds; (cancel) after the flag is raised the evaluation ends with an
error within 1000 further ticks; (reuse) afterwards the call stack is empty and the probe program works."""
import json
import os
import random

import common
from c07 import PROBE, PROBE_EXPECT
from common import NCPU, Report, log, seed

LIMITS = [2, 3, 10, 50, 200, 1000]

# each shape: source template with {N} = recursion parameter; the deepest point calls mark() which records stack_depth()
SHAPES = {
    "direct": "def f(n):\n    if n <= 0:\n        return mark()\n    return f(n - 1)\nemit(f({N}))\n",
    "direct_nontail": "def f(n):\n    if n <= 0:\n        return mark()\n    return 1 + f(n - 1)\nemit(f({N}))\n",
    "mutual2": "def a(n):\n    if n <= 0:\n        return mark()\n    return b(n - 1)\ndef b(n):\n    if n <= 0:\n        return mark()\n    return a(n - 1)\nemit(a({N}))\n",
    "mutual3": "def a(n):\n    return mark() if n <= 0 else b(n - 1)\ndef b(n):\n    return mark() if n <= 0 else c(n - 1)\ndef c(n):\n    return mark() if n <= 0 else a(n - 1)\nemit(a({N}))\n",
    "lambda": "f = [None]\nf[0] = lambda n: mark() if n <= 0 else f[0](n - 1)\nemit(f[0]({N}))\n",
    "comprehension": "def f(n):\n    if n <= 0:\n        return mark()\n    return [f(n - 1) for _ in [1]][0]\nemit(f({N}))\n",
    "sorted_key": "def f(n):\n    if n <= 0:\n        return mark()\n    return sorted([1], key=lambda x: f(n - 1))[0] + f0()\ndef f0():\n    return 0\nemit(f({N}))\n",
    "map": "def f(n):\n    if n <= 0:\n        return mark()\n    return map(lambda x: f(n - 1), [1])[0]\nemit(f({N}))\n",
    "partial": "def f(k, n):\n    if n <= 0:\n        return mark()\n    return partial(f, k)(n - 1)\nemit(f(0, {N}))\n",
    "struct_field": "def f(n):\n    if n <= 0:\n        return mark()\n    return S.f(n - 1)\nS = struct(f=f)\nemit(f({N}))\n",
    "method_and_call": "def f(n, acc):\n    acc.append(n)\n    if n <= 0:\n        return mark()\n    return f(n - 1, acc)\nemit(f({N}, []))\n",
    "via_variable": "def f(n):\n    g = f\n    if n <= 0:\n        return mark()\n    return g(n - 1)\nemit(f({N}))\n",
    "kwargs": "def f(n=0, **kw):\n    if n <= 0:\n        return mark()\n    return f(n=n - 1, **kw)\nemit(f(n={N}, z=1))\n",
    "star_args": "def f(*a):\n    if a[0] <= 0:\n        return mark()\n    return f(*[a[0] - 1])\nemit(f({N}))\n",
    "inlinable_wrapper": "def w(n):\n    return f(n)\ndef f(n):\n    if n <= 0:\n        return mark()\n    return w(n - 1)\nemit(f({N}))\n",
    "attempt_native": "def f(n):\n    if n <= 0:\n        return mark()\n    return attempt(lambda: f(n - 1))[1]\nemit(f({N}))\n",
}
MARK = "def mark():\n    emit(\"D\", stack_depth())\n    return 0\n"
FROZEN_SHAPE = ("def f(n):\n    if n <= 0:\n        return mark()\n    return f(n - 1)\n", 'load("lib.star", "f")\nemit(f({N}))\n')


def depth_cases(tier, rng):
    cases, meta = [], {}
    k = 0
    limits = LIMITS if tier == "thorough" else [2, 3, 10, 50, 200]
    for shape, tmpl in list(SHAPES.items()) + [("frozen_def", None)]:
        for L in limits:
            for n in sorted(set(range(0, min(L + 4, 14))) | set(max(0, base + d) for base in (L // 3, L // 2, L) for d in (-5, -4, -3, -2, -1, 0, 1, 2, 3))):
                for limited in (False, True):
                    cfg = {"dialect": "internal", "probe": PROBE}
                    if limited:
                        cfg["max_callstack"] = L
                    else:
                        cfg["max_callstack"] = 100000
                    if shape == "frozen_def":
                        units = [{"file": "lib.star", "src": MARK + FROZEN_SHAPE[0], "freeze": True}, {"file": "m.star", "src": FROZEN_SHAPE[1].replace("{N}", str(n))}]
                    else:
                        units = [{"file": "m.star", "src": MARK + tmpl.replace("{N}", str(n))}]
                    cid = "d%d" % k
                    k += 1
                    cases.append({"id": cid, "cfg": cfg, "units": units})
                    meta[cid] = ("depth", shape, L, n, limited)
    return cases, meta


TICK_PROGS = [
    # (name, source; loop iterations I(a,b); calls to non-inlinable defs issued by bytecode C(a,b); upper bound U(a,b) = I + every call site executed)
    ("nested_for", "def run(a, b):\n    t = 0\n    for i in range(a):\n        for j in range(b):\n            t += 1\n    return t\nemit(run({A}, {B}))\n",
     lambda a, b: a + a * b, lambda a, b: 1, lambda a, b: a + a * b + 1 + (1 + a) + 1),
    ("calls_in_loop", "def g(x):\n    for _ in [1]:\n        pass\n    return x\ndef run(a, b):\n    t = 0\n    for i in range(a):\n        t += g(i)\n    return t\nemit(run({A}, {B}))\n",
     lambda a, b: a + a, lambda a, b: 1 + a, lambda a, b: 2 * a + 1 + a + 2),
    ("comprehension", "def run(a, b):\n    return len([i + j for i in range(a) for j in range(b)])\nemit(run({A}, {B}))\n",
     lambda a, b: a + a * b, lambda a, b: 1, lambda a, b: a + a * b + 1 + 1 + (1 + a) + 1),
    ("module_level_loop", "t = 0\nfor i in range({A}):\n    t += i\nemit(t)\n",
     lambda a, b: a, lambda a, b: 0, lambda a, b: a + 2),
    ("native_callback", "def key(x):\n    for _ in [1]:\n        pass\n    return -x\ndef run(a, b):\n    return sorted(range(a), key=key)[0]\nemit(run({A}, {B}))\n",
     lambda a, b: a, lambda a, b: 1, lambda a, b: a + 4),
    ("frozen_callee", "load(\"tl.star\", \"g\")\ndef run(a, b):\n    t = 0\n    for i in range(a):\n        t += g(i)\n    return t\nemit(run({A}, {B}))\n",
     lambda a, b: a + a, lambda a, b: 1 + a, lambda a, b: 2 * a + 1 + a + 2),
    ("method_calls", "def run(a, b):\n    l = []\n    for i in range(a):\n        l.append(i)\n    return len(l)\nemit(run({A}, {B}))\n",
     lambda a, b: a, lambda a, b: 1, lambda a, b: a + 1 + a + 3),
]
TICK_LIB = {"file": "tl.star", "freeze": True, "src": "def g(x):\n    for _ in [1]:\n        pass\n    return x\n"}


def tick_cases(tier, rng):
    cases, meta = [], {}
    k = 0
    sizes = [(3, 4), (10, 10), (40, 30), (100, 70), (300, 300)] + ([(1000, 300)] if tier == "thorough" else [])
    for name, tmpl, fi, fc, fu in TICK_PROGS:
        for a, b in sizes:
            src = tmpl.replace("{A}", str(a)).replace("{B}", str(b))
            for rep_i in range(3):
                cid = "t%d" % k
                k += 1
                cases.append({"id": cid, "cfg": {"dialect": "internal", "probe": PROBE}, "units": ([TICK_LIB] if "tl.star" in src else []) + [{"file": "m.star", "src": src}]})
                meta[cid] = ("ticks_unlimited", name, a, b, rep_i)
    return cases, meta


def budget_cases(unlimited, tick_meta):
    """Second phase: budgets placed around the measured N of each program."""
    cases, meta = [], {}
    k = 0
    for (name, a, b), (N, src) in unlimited.items():
        for B in sorted(set(x for x in (1, N - 1001, N - 1000, N - 999, N - 1, N, N + 1, 2 * N, N // 2) if x > 0)):
            for reuse in (False, True):
                cid = "b%d" % k
                k += 1
                # the budget is a property of the evaluator: a second program on the same evaluator keeps counting
                unit = {"file": "m.star", "src": src, "cfg": {"dialect": "internal", "probe": PROBE, "max_ticks": B, "reuse_eval": reuse}}
                if reuse:
                    # same program again on the same evaluator: the budget is the evaluator's, ticks keep counting
                    unit["evals"] = [{"src": src}, {"src": src}]
                cases.append({"id": cid, "cfg": {"dialect": "internal"}, "units": ([TICK_LIB] if "tl.star" in src else []) + [unit]})
                meta[cid] = ("ticks_budget", name, a, b, N, B, reuse)
    return cases, meta


def cancel_cases(rng, n):
    cases, meta = [], {}
    for k in range(n):
        pre = rng.choice([0, 1, 7, 99, 100, 500, 999, 1000, 1001, 1500, 2500])
        form = rng.choice(["for", "def_loop", "calls", "comprehension"])
        if form == "for":
            body = "for i in range(%d):\n    pass\ncancel()\nfor j in range(5000):\n    if j %% 100 == 0:\n        emit(\"after\", j)\n" % pre
        elif form == "def_loop":
            body = "def run():\n    for i in range(%d):\n        pass\n    cancel()\n    for j in range(5000):\n        if j %% 100 == 0:\n            emit(\"after\", j)\nrun()\n" % pre
        elif form == "calls":
            body = "def g(j):\n    for _ in [1]:\n        pass\n    if j %% 100 == 0:\n        emit(\"after\", j)\ndef run():\n    for i in range(%d):\n        pass\n    cancel()\n    for j in range(2500):\n        g(j)\nrun()\n" % pre
        else:
            body = "def note(j):\n    if j %% 100 == 0:\n        emit(\"after\", j)\n    return j\ndef run():\n    for i in range(%d):\n        pass\n    cancel()\n    return len([note(j) for j in range(5000)])\nrun()\n" % pre
        cid = "c%d" % k
        unit = {"file": "m.star", "src": body}
        reuse = k % 2 == 0
        if reuse and k % 4 == 0:
            # history on one evaluator: the limit must be honoured again after it was hit before
            # (every item cancels at its own position; items run on the same evaluator, flag reset by the host in between)
            unit["evals"] = [{"src": body.replace("range(%d)" % pre, "range(%d)" % rng.choice([0, 3, 400, 1200, 2100]))} for _ in range(rng.choice([1, 2, 3]))]
        cases.append({"id": cid, "cfg": {"dialect": "internal", "probe": PROBE, "reuse_eval": reuse}, "units": [unit]})
        meta[cid] = ("cancel", form, pre)
    return cases, meta


def first_r(evs, file="m.star"):
    for e in evs:
        if e[0] == "r" and e[1] == file:
            return e
    return None


def probes_ok(rep, evs, c, flavor, what):
    for e in evs:
        if e[0] == "r" and e[1] == "probe.star":
            if e[3] != "ok" or e[4] != PROBE_EXPECT:
                rep.violation("c15:probe-after:" + what, "[%s] %s: after %s the probe on the same evaluator gives %s" % (flavor, c["id"], what, json.dumps(e[4])[:200]), {"flavor": flavor, "case": c})
                return False
        if e[0] == "r" and len(e) > 5 and e[5] != 0:
            rep.violation("c15:stack-not-empty-after:" + what, "[%s] %s: after %s call_stack_count() = %s" % (flavor, c["id"], what, e[5]), {"flavor": flavor, "case": c})
            return False
        if e[0] == "panic":
            rep.violation("c15:panic:" + e[1][:80], "[%s] %s: panic %s" % (flavor, c["id"], e[1]), {"flavor": flavor, "case": c})
            return False
    return True


def run(tier):
    rep = Report("C15", tier)
    s = seed()
    rng = random.Random("%d/c15" % s)
    flavors = ["dbg"] if tier == "quick" else ["dbg", "rel"]
    st = {"depth": 0, "depth_overflow": 0, "ticks": 0, "budget_fail": 0, "budget_ok": 0, "cancel": 0, "unbounded": 0}
    distinct = set()
    samples = []
    for flavor in flavors:
        svh = os.path.join(common.build(flavor), "svh")
        dcases, dmeta = depth_cases(tier, rng)
        tcases, tmeta = tick_cases(tier, rng)
        ccases, cmeta = cancel_cases(random.Random("%d/c15c" % s), 200 if tier == "quick" else 2000)
        batch = common.run_cases(svh, "run", dcases + tcases + ccases, "c15_" + flavor, shards=NCPU, timeout=3000)
        for cr in batch.crashes:
            rep.violation("c15:" + common.crash_signature(cr), "[%s] crash in %s" % (flavor, cr["id"]), {"flavor": flavor, "case": cr["case"], "crash": cr.get("confirm")})
        for inc in batch.inconclusive:
            rep.inconc(inc["why"], inc.get("id"))
        # ---- depth: pair unlimited and limited runs
        unl = {}
        for c in dcases:
            evs = batch.events.get(c["id"])
            if evs is None:
                continue
            kind, shape, L, n, limited = dmeta[c["id"]]
            r = first_r(evs)
            if not limited:
                em = [e for e in evs if e[0] == "e"]
                if r is None or r[3] != "ok" or not em:
                    rep.inconc("unlimited depth run failed (generator)", {"id": c["id"], "r": r})
                    continue
                ds = [int(x[2][1:]) for x in em if x[1] == "sD"]
                if not ds:
                    rep.inconc("unlimited depth run never reached mark() (generator)", c["id"])
                    continue
                unl[(shape, L, n)] = max(ds)
        for c in dcases:
            evs = batch.events.get(c["id"])
            if evs is None:
                continue
            kind, shape, L, n, limited = dmeta[c["id"]]
            if not limited or (shape, L, n) not in unl:
                continue
            D = unl[(shape, L, n)]
            r = first_r(evs)
            st["depth"] += 1
            distinct.add(("depth", shape, L, n))
            wit = {"flavor": flavor, "case": c, "measured_depth": D, "limit": L}
            if L >= 10 and not probes_ok(rep, evs, c, flavor, "depth-limit"):
                continue
            if shape == "attempt_native":
                continue  # attempt() turns the overflow into a value: only 'no crash, evaluator usable' is demanded
            if D <= L:
                ds = [int(x[2][1:]) for x in evs if x[0] == "e" and x[1] == "sD"]
                if r[3] != "ok" or not ds or max(ds) != D:
                    rep.violation("c15:within-limit-affected:%s" % shape, "[%s] %s shape %s: call depth %d <= limit %d but the run ended %s" % (
                        flavor, c["id"], shape, D, L, json.dumps(r[3:5])[:200]), wit)
            else:
                st["depth_overflow"] += 1
                if r[3] == "ok":
                    rep.violation("c15:over-limit-succeeds:%s" % shape, "[%s] %s shape %s: call depth %d > limit %d but evaluation succeeded" % (flavor, c["id"], shape, D, L), wit)
                elif r[3] == "err" and r[4].get("kind") != "StackOverflow":
                    rep.violation("c15:over-limit-wrong-kind:%s" % shape, "[%s] %s shape %s: depth %d > limit %d failed with kind %s (%s) instead of StackOverflow" % (
                        flavor, c["id"], shape, D, L, r[4].get("kind"), r[4].get("msg")), wit)
        # ---- ticks: determinism and structural bounds
        unlimited = {}
        for name, tmpl, fi, fc, fu in TICK_PROGS:
            pass
        by = {}
        for c in tcases:
            evs = batch.events.get(c["id"])
            if evs is None:
                continue
            _, name, a, b, rep_i = tmeta[c["id"]]
            r = first_r(evs)
            if r is None or r[3] != "ok":
                rep.violation("c15:tick-program-failed:" + name, "[%s] %s: unlimited tick program failed: %s" % (flavor, c["id"], json.dumps(r)[:200]), {"flavor": flavor, "case": c})
                continue
            by.setdefault((name, a, b), []).append((r[6], c))
        for (name, a, b), runs in by.items():
            Ns = set(x[0] for x in runs)
            st["ticks"] += len(runs)
            if len(Ns) != 1:
                rep.violation("c15:tick-count-not-deterministic:" + name, "[%s] tick count of %s(%d,%d) differs between runs: %s" % (flavor, name, a, b, sorted(Ns)), {"flavor": flavor, "case": runs[0][1]})
                continue
            N = Ns.pop()
            prog = [p for p in TICK_PROGS if p[0] == name][0]
            lo, hi = prog[2](a, b) + prog[3](a, b), prog[4](a, b)
            if not (lo <= N <= hi):
                rep.violation("c15:tick-count-out-of-bounds:" + name, "[%s] %s(%d,%d): %d ticks, structural bounds [%d, %d] (iterations + calls)" % (flavor, name, a, b, N, lo, hi),
                              {"flavor": flavor, "case": runs[0][1]})
            unlimited[(name, a, b)] = (N, runs[0][1]["units"][-1]["src"])
            distinct.add(("ticks", name, a, b))
        # ---- cancellation
        for c in ccases:
            evs = batch.events.get(c["id"])
            if evs is None:
                continue
            st["cancel"] += 1
            distinct.add(("cancel",) + cmeta[c["id"]][1:])
            r = first_r(evs)
            wit = {"flavor": flavor, "case": c}
            if not probes_ok(rep, evs, c, flavor, "cancellation"):
                continue
            seen_cancel = False
            after = []
            item = 0
            for e in evs:
                if e[0] == "cancel":
                    seen_cancel = True
                elif e[0] == "e" and seen_cancel and e[1] == "safter":
                    after.append(int(e[2][1:]))
                elif e[0] == "r" and e[1] != "probe.star":
                    # one item of the history ends here
                    r = e
                    nth = "" if item == 0 else ":item%d-on-same-evaluator" % min(item, 2)
                    st["cancel_items"] = st.get("cancel_items", 0) + 1
                    if r[3] == "ok":
                        rep.violation("c15:cancel-ignored:" + cmeta[c["id"]][1] + nth, "[%s] %s item %d: evaluation ended Ok although cancellation was requested" % (flavor, c["id"], item), wit)
                    elif after and max(after) > 1100:
                        rep.violation("c15:cancel-late:" + cmeta[c["id"]][1] + nth, "[%s] %s item %d: %d further loop iterations ran after cancel() (documented interval 1000)" % (
                            flavor, c["id"], item, max(after)), wit)
                    elif r[3] == "err" and "ancel" not in r[4].get("msg", ""):
                        rep.violation("c15:cancel-wrong-error", "[%s] %s item %d: cancelled evaluation ended with %s" % (flavor, c["id"], item, r[4].get("msg")), wit)
                    seen_cancel = False
                    after = []
                    item += 1
            if item == 0:
                rep.violation("c15:cancel-no-result", "[%s] %s: no result recorded" % (flavor, c["id"]), wit)
        # ---- phase 2: budgets around N
        bcases, bmeta = budget_cases(unlimited, tmeta)
        # unbounded recursion on small and normal stacks with the default limit
        ucases = []
        for i, (shape, tmpl) in enumerate(SHAPES.items()):
            ucases.append({"id": "u%d" % i, "cfg": {"dialect": "internal", "probe": PROBE}, "units": [{"file": "m.star", "src": MARK + tmpl.replace("{N}", "1000000")}]})
        for stack_mb, sub in ((8, "c15b_"), (2, "c15s_")):
            b2 = common.run_cases(svh, "run", (bcases if stack_mb == 8 else []) + ucases, sub + flavor, opts={"stack_mb": str(stack_mb)}, shards=NCPU, timeout=3000)
            for cr in b2.crashes:
                rep.violation("c15:crash:" + ("unbounded-recursion" if cr["id"].startswith("u") else "budget") + ":" + common.crash_signature(cr),
                              "[%s] process died (stack %d MiB) in %s: %s" % (flavor, stack_mb, cr["id"], ((cr.get("confirm") or {}).get("stderr") or "")[-300:]),
                              {"flavor": flavor, "case": cr["case"], "crash": cr.get("confirm"), "stack_mb": stack_mb})
            for inc in b2.inconclusive:
                rep.inconc(inc["why"], inc.get("id"))
            for c in ucases:
                evs = b2.events.get(c["id"])
                if evs is None:
                    continue
                st["unbounded"] += 1
                r = first_r(evs)
                if not probes_ok(rep, evs, c, flavor, "stack-overflow"):
                    continue
                if "attempt(" in c["units"][0]["src"]:
                    continue
                if r is None or r[3] != "err" or r[4].get("kind") != "StackOverflow":
                    rep.violation("c15:unbounded-recursion-outcome", "[%s] %s (stack %d MiB): unbounded recursion ended with %s" % (flavor, c["id"], stack_mb, json.dumps(r[3:5] if r else None)[:200]),
                                  {"flavor": flavor, "case": c})
            if stack_mb != 8:
                continue
            for c in bcases:
                evs = b2.events.get(c["id"])
                if evs is None:
                    continue
                _, name, a, b, N, B, reuse = bmeta[c["id"]]
                r = first_r(evs)
                wit = {"flavor": flavor, "case": c, "N": N, "B": B}
                distinct.add(("budget", name, a, b, B - N))
                # probe: with reuse_eval the probe continues counting on the same evaluator, so it may legitimately hit the budget
                for e in evs:
                    if e[0] == "r" and len(e) > 5 and e[5] != 0:
                        rep.violation("c15:stack-not-empty-after:tick-limit", "[%s] %s: call_stack_count() = %s after the run" % (flavor, c["id"], e[5]), wit)
                pr = [e for e in evs if e[0] == "r" and e[1] == "probe.star"]
                if pr and (pr[0][3] != "ok" or pr[0][4] != PROBE_EXPECT) and B >= N + 100:
                    rep.violation("c15:probe-after:tick-limit", "[%s] %s: probe on a fresh evaluator after tick-limit run gives %s" % (flavor, c["id"], json.dumps(pr[0][3:5])[:200]), wit)
                # history on one evaluator: item k starts at T ticks; it must succeed iff T + N <= B, and otherwise stop within the interval
                items = [e for e in evs if e[0] == "r" and e[1].startswith("m.star")]
                probes = [e for e in evs if e[0] == "r" and e[1] == "probe.star"]
                for k in range(1, len(items)):
                    prev_end = probes[k - 1][6] if len(probes) >= k and len(probes[k - 1]) > 6 else items[k - 1][6]
                    it = items[k]
                    st["budget_items"] = st.get("budget_items", 0) + 1
                    if prev_end + N <= B:
                        if it[3] != "ok":
                            rep.violation("c15:within-budget-fails:item-on-same-evaluator:" + name, "[%s] %s item %d: started at %d ticks, needs %d, budget %d, but failed: %s" % (
                                flavor, c["id"], k, prev_end, N, B, json.dumps(it[4])[:200]), wit)
                    else:
                        if it[3] == "ok":
                            rep.violation("c15:over-budget-succeeds:item-on-same-evaluator:" + name, "[%s] %s item %d: started at %d ticks, performs %d more, budget %d, but succeeded" % (
                                flavor, c["id"], k, prev_end, N, B), wit)
                        elif it[6] > max(B, prev_end) + 1000 + 1:
                            rep.violation("c15:tick-overshoot:item-on-same-evaluator:" + name, "[%s] %s item %d: started at %d ticks with budget %d and stopped only at %d (documented check interval 1000)" % (
                                flavor, c["id"], k, prev_end, B, it[6]), wit)
                if N <= B:
                    st["budget_ok"] += 1
                    if r[3] != "ok":
                        rep.violation("c15:within-budget-fails:" + name, "[%s] %s: %s needs %d ticks, budget %d, but failed: %s" % (flavor, c["id"], name, N, B, json.dumps(r[4])[:200]), wit)
                else:
                    st["budget_fail"] += 1
                    if r[3] == "ok":
                        rep.violation("c15:over-budget-succeeds:" + name, "[%s] %s: %s performs %d ticks with budget %d but succeeded" % (flavor, c["id"], name, N, B), wit)
                    else:
                        at = r[6]
                        if at > B + 1000 + 1:
                            rep.violation("c15:tick-overshoot:" + name, "[%s] %s: failed only after %d ticks with budget %d (documented check interval 1000)" % (flavor, c["id"], at, B), wit)
                        if "tick" not in r[4].get("msg", "").lower() and "limit" not in r[4].get("msg", "").lower():
                            rep.violation("c15:tick-limit-wrong-error", "[%s] %s: over budget but error is %s" % (flavor, c["id"], r[4].get("msg")), wit)
        if not samples:
            samples = [{"depth_case": dcases[5], "tick_program": TICK_PROGS[0][1]}]
    rep.coverage = {
        "evaluations": st["depth"] + st["ticks"] + st["budget_ok"] + st["budget_fail"] + st["cancel"] + st["unbounded"],
        "distinct_nontrivial": len(distinct),
        "rule": "evaluation = one (program, limit) execution judged against the limit model; distinct = distinct (shape, limit, depth) / (program, sizes, budget offset) / (cancel form, position) combinations",
        "samples": samples,
        "recursion_shapes": sorted(SHAPES) + ["frozen_def"],
        "depth_limited_runs": st["depth"],
        "of_which_over_the_limit": st["depth_overflow"],
        "tick_programs_runs": st["ticks"],
        "budget_runs_within": st["budget_ok"],
        "budget_runs_over": st["budget_fail"],
        "cancellation_runs": st["cancel"],
        "cancellation_items_incl_repeats_on_one_evaluator": st.get("cancel_items", 0),
        "budget_items_repeated_on_one_evaluator": st.get("budget_items", 0),
        "unbounded_recursion_runs_8MiB_and_2MiB": st["unbounded"],
        "flavors": flavors,
        "exhaustive": False,
    }
    rep.assumptions = ["call depth is what Evaluator::call_stack_count() reports at the deepest point (natives push a frame too)",
                       "documented check interval for tick and cancellation checks is 1000 ticks"]
    rep.finish(sanity_ok=st["depth_overflow"] > 50 and st["budget_fail"] > 20 and st["cancel"] > 50, sanity_msg="too few limit events observed")


def replay(rep):
    w = rep["witness"]
    svh = os.path.join(common.build(w.get("flavor", "dbg")), "svh")
    opts = {"stack_mb": str(w["stack_mb"])} if "stack_mb" in w else {}
    batch = common.run_cases(svh, "run", [w["case"]], "c15_replay", opts=opts, shards=1)
    print(json.dumps(w["case"])[:1500])
    if batch.crashes:
        print("crash", json.dumps(batch.crashes[0].get("confirm"))[:1500])
        return 1
    print(json.dumps(batch.events.get(w["case"]["id"]))[:2500])
    return 1
