"""C07: evaluation is total and recoverable: a value or a located error, never a crash.
Monitors: in-process panic capture + child exit status; every error must have a span inside an involved file and a
resolvable call stack, must not be an internal error; after every evaluation (failed or not) the call stack is empty
and a fixed probe program evaluated on the same module/evaluator gives the result it gives on a fresh one."""
import json
import os
import random
import re

import common
import gen_core
import gen_full
from common import NCPU, Report, log, seed

PROBE = """def _pr_f(n):
    acc = []
    for i in range(n):
        acc.append(i * i)
    d = {str(x): x for x in acc}
    d["k"] = [y for y in acc if y % 2 == 0]
    return "%s|%d|%s|%s" % (sorted(d.keys()), len(acc), d["k"], "{}-{}".format(n, [q for q in "ab".elems()]))
_pr_f(5)
"""
PROBE_EXPECT = 's["0", "1", "16", "4", "9", "k"]|5|[0, 4, 16]|5-["a", "b"]'

PRELUDE = """SELF_L = [1]
SELF_L.append(SELF_L)
SELF_D = {"a": 1}
SELF_D["self"] = SELF_D
REC_T = record(x=int, y=str)
REC_V = REC_T(x=1, y="a")
ENUM_T = enum("a", "b")
ENUM_V = ENUM_T("a")
STRUCT_V = struct(a=1, b=[2])
def DEF_F(a, b=2, *args, **kwargs):
    return a
def DEF_0():
    return 0
BIG_S = "ab" * (1 << 11)
BIG_L = [0] * (1 << 12)
NESTED_L = [[[[[]]]]]
"""

ARGS = [
    "0", "1", "-1", "2", "7", "2147483647", "2147483648", "-2147483648", "-2147483649", "4294967296", "9223372036854775807", "9223372036854775808",
    "-9223372036854775808", "-9223372036854775809", "(1 << 200)", "-(1 << 200)", "0.0", "-0.0", "1.5", "float(\"nan\")", "float(\"inf\")", "-float(\"inf\")", "1e308",
    "\"\"", "\"a\"", "\"abc\"", "\"%s\"", "\"{}\"", "\"{\"", "\"%\"", "\"\\u00e9\\u65e5\"", "\"a b\\tc\\n\"", "BIG_S", "None", "True", "False",
    "[]", "[1]", "[1, \"a\", None]", "[[]]", "NESTED_L", "SELF_L", "BIG_L", "{}", "{1: 2}", "{\"a\": [1]}", "SELF_D", "()", "(1,)", "(1, (2, 3))", "set()", "set([1, 2])",
    "DEF_F", "DEF_0", "lambda x: x", "len", "int", "str", "list", "STRUCT_V", "REC_T", "REC_V", "ENUM_T", "ENUM_V", "range(3)", "range(0)", "range(1 << 16)",
    "typing.Any", "int | str", "[1].append", "\"a\".join", "struct", "struct()", "range(5, 0, -1)",
    # bytes: complete, truncated and invalid UTF-8 sequences, NUL, high bytes
    "b\"\"", "b\"abc\"", "b\"\\xc3\\xa9\"", "b\"\\xc3\"", "b\"ab\\xe4\\xb8\"", "b\"\\xf0\\x9f\\x98\"", "b\"\\xff\\xfe\\x00\"", "b\"\\x80\"", "bytes(\"\\u00e9\")[:1]", "bytes([255, 0, 195])",
    "[b\"\\xe4\\xb8\"]", "{b\"\\xc3\": b\"\\xf0\\x9f\"}", "(b\"\\xc2\", 1)",
]
SAMPLE_VALUES = ["b\"abc\"", "\"abc\"", "[1, 2]", "{\"a\": 1}", "set([1])", "(1, 2)", "1", "1.5", "True", "None", "range(3)", "STRUCT_V", "REC_V", "REC_T", "ENUM_T", "ENUM_V", "DEF_F", "len",
                 "int", "(1 << 100)", "typing.Any", "[1].append", "json", "typing"]
WRAPS = [
    "%s",
    "DEF_F(%s)",
    "(lambda: %s)()",
    "[%s for _ in [1]]",
    "{1: %s for _ in [1]}",
    "sorted([2, 1], key=lambda _x: %s)",
    "map(lambda _x: %s, [1])",
    "[[(lambda: %s)() for _a in [1]] for _b in [1]]",
    "(%s if True else 0)",
    "struct(a=%s)",
]
OPS = ["+", "-", "*", "//", "%", "/", "&", "|", "^", "<<", ">>", "==", "!=", "<", "<=", ">", ">=", "in", "not in", "and", "or"]
SMALL = ["0", "1", "-1", "2", "3", "65536", "\"\"", "\"a\"", "[]", "[1]", "(1,)", "None", "True", "1.5", "{}", "set([1])", "\"%s\"", "\"%d\"", "\"{}\"", "SELF_L", "STRUCT_V", "range(3)",
         "\"%r\"", "\"{!r}\"", "b\"\\xc3\"", "b\"a\\xe4\\xb8\"", "(b\"\\xf0\\x9f\",)"]


def inventory(svh):
    src = PRELUDE + "emit(\"globals\", harness_global_names())\n" + "".join("emit(\"dir\", %s, dir(%s))\n" % (json.dumps(v), v) for v in SAMPLE_VALUES)
    c = {"id": "inv", "cfg": {"dialect": "internal"}, "units": [{"file": "inv.star", "src": src}]}
    b = common.run_cases(svh, "run", [c], "c07_inv", shards=1)
    glob, methods = [], {}
    for e in b.events.get("inv", []):
        if e[0] == "e" and e[1] == "sglobals":
            glob = [x[1:] for x in e[2][1:]]
        if e[0] == "e" and e[1] == "sdir":
            methods[e[2][1:]] = [x[1:] for x in e[3][1:]]
    return glob, methods


SKIP_GLOBALS = {"breakpoint", "emit", "snapshot", "cancel", "attempt", "harness_global_names", "fail"}


def gen_snippets(rng, glob, methods, n):
    callees = [g for g in glob if g not in SKIP_GLOBALS]
    mcallees = [(recv, m) for recv, ms in methods.items() for m in ms]
    out = []
    for _ in range(n):
        k = rng.random()
        if k < 0.45:
            f = rng.choice(callees)
            expr = "%s(%s)" % (f, _args(rng))
        elif k < 0.8 and mcallees:
            recv, m = rng.choice(mcallees)
            if rng.random() < 0.3:
                recv = rng.choice(ARGS)
            expr = "(%s).%s(%s)" % (recv, m, _args(rng))
        elif k < 0.86 and mcallees:
            # the receiver is a named mutable value and the arguments alias it (directly, wrapped, as a view,
            # or through a callback that mutates it): borrow / iteration-lock conflicts inside one native call
            recv = rng.choice(["RL", "RD", "RS"])
            kind = {"RL": "[1, 2]", "RD": "{\"a\": 1}", "RS": "set([1])"}[recv]
            ms = methods.get(kind) or ["append"]
            m = rng.choice(ms)
            al = ["%s", "[%s]", "(%s,)", "[%s, %s]" , "{\"k\": %s}", "[[%s]]", "(%s, 1)", "[(1, %s)]"]
            views = {"RL": ["RL[:]", "reversed(RL)", "enumerate(RL)", "zip(RL, RL)"], "RD": ["RD.items()", "RD.keys()", "RD.values()", "[RD.items()]", "list(RD.items())", "zip(RD, RD)"],
                     "RS": ["list(RS)", "RS | RS"]}[recv]
            cbs = ["lambda *a: %s.clear()" % recv, "lambda *a: %s" % recv,
                   {"RL": "lambda *a: RL.append(1)", "RD": "lambda *a: RD.update(z=1)", "RS": "lambda *a: RS.add(9)"}[recv]]
            def alias():
                r = rng.random()
                if r < 0.5:
                    t = rng.choice(al)
                    return t % ((recv,) * t.count("%s"))
                if r < 0.75:
                    return rng.choice(views)
                if r < 0.9:
                    return rng.choice(cbs)
                return rng.choice(ARGS)
            n_args = rng.choice([1, 1, 2, 2, 3])
            parts = [alias() for _ in range(n_args)]
            if rng.random() < 0.2:
                parts.append("%s=%s" % (rng.choice(["key", "default", "x"]), alias()))
            expr = "%s.%s(%s)" % (recv, m, ", ".join(parts))
            out.append("RL = [1, 2]\nRD = {1: 2, 3: 4}\nRS = set([1, 2])\n_r = " + expr)
            continue
        elif k < 0.9:
            op = rng.choice(OPS)
            # repeat counts stay bounded: `*` only combines small operands
            expr = "(%s) %s (%s)" % (rng.choice(SMALL if (op == "*" or rng.random() < 0.7) else ARGS), op, rng.choice(SMALL))
        elif k < 0.95:
            expr = "(%s)[%s]" % (rng.choice(ARGS), rng.choice(ARGS + ["0:1", "::-1", "1:", ":-1:2", "::0"]))
        else:
            expr = rng.choice(["-(%s)", "~(%s)", "+(%s)", "not (%s)", "(%s).x", "(%s)()", "[x for x in %s]", "{x: 1 for x in %s}", "(%s)(*[1], **{\"a\": 2})", "getattr(%s, \"a\")"]) % rng.choice(ARGS)
        out.append(rng.choice(WRAPS) % expr)
    return out


def _args(rng):
    n = rng.choice([0, 1, 1, 2, 2, 3, 4])
    parts = [rng.choice(ARGS) for _ in range(n)]
    r = rng.random()
    if r < 0.12:
        parts.append("%s=%s" % (rng.choice(["x", "key", "reverse", "sep", "default", "a", "start", "end", "unknown_kw"]), rng.choice(ARGS)))
    if r < 0.04:
        parts.append("x=1, x=2" if False else "key=%s" % rng.choice(ARGS))
    if 0.12 <= r < 0.17:
        parts.append("*%s" % rng.choice(["[1, 2]", "1", "None", "\"ab\"", "SELF_L"]))
    if 0.17 <= r < 0.22:
        parts.append("**%s" % rng.choice(["{\"a\": 1}", "{1: 2}", "1", "[1]", "SELF_D"]))
    return ", ".join(parts)


def scramble(rng, src):
    """Replace some identifier uses by other identifiers of the program (ill-typed but syntactically valid)."""
    names = sorted(set(re.findall(r"\b[vfi]\d+\b", src)))
    if len(names) < 3:
        return src

    def sub(m):
        if rng.random() < 0.08:
            return rng.choice(names)
        return m.group(0)
    out = []
    for line in src.splitlines():
        if line.lstrip().startswith(("def ", "for ", "load(")) or "=" in line.split("(")[0] and rng.random() < 0.7:
            out.append(line)  # keep binders mostly intact so the program still binds names
        else:
            out.append(re.sub(r"\b[vfi]\d+\b", sub, line))
    return "\n".join(out) + "\n"


def crash_sig(item, stderr):
    """Signature of a process death: what died (stack overflow / signal / abort) + the shape of the culprit snippet."""
    what = "stack-overflow" if ("overflowed its stack" in stderr or "AddressSanitizer: stack-overflow" in stderr) else ("asan" if "AddressSanitizer" in stderr else "abort")
    m = re.search(r"\bdebug\((SELF_L|SELF_D)", item)
    if m and what == "stack-overflow":
        return "c07:crash:stack-overflow:debug-of-self-containing-value"
    shape = re.sub(r"[0-9]+", "N", item)
    return "c07:crash:%s:%s" % (what, shape[:70])


def judge_err(rep, err, where, case, files, flavor, st):
    wit = {"flavor": flavor, "case": case, "where": where}
    if err.get("kind") == "Internal":
        rep.violation("c07:internal-error:" + err.get("msg", "")[:60], "[%s] %s: internal error: %s" % (flavor, where, err.get("msg")), wit)
        return
    sp = err.get("span")
    if sp is None:
        st["no_span"] += 1
        rep.violation("c07:error-without-span:" + re.sub(r"`[^`]*`", "`_`", err.get("msg", ""))[:60], "[%s] %s: error has no span: %s" % (flavor, where, err.get("msg")), wit)
        return
    src = files.get(sp["file"])
    if src is None:
        rep.violation("c07:span-unknown-file", "[%s] %s: span refers to file %s which is not involved" % (flavor, where, sp["file"]), wit)
        return
    lines = src.split("\n")
    ok = sp.get("in_file") and 0 <= sp["bl"] <= sp["el"] < max(1, len(lines) + 1) and (sp["bl"] < sp["el"] or sp["bc"] <= sp["ec"])
    if ok and sp["bl"] < len(lines):
        ok = sp["bc"] <= len(lines[sp["bl"]])
    if not ok:
        rep.violation("c07:span-outside-file", "[%s] %s: span %s lies outside %s" % (flavor, where, sp, sp["file"]), wit)
        return
    for fr in err.get("stack", []):
        if not fr[0] and fr[0] != "":
            rep.violation("c07:unnamed-frame", "[%s] %s: call stack frame without a name" % (flavor, where), wit)
        loc = fr[1]
        if loc is not None and (loc[0] not in files or not loc[3]):
            if loc[0] not in files and not loc[0].endswith(".rs"):
                rep.violation("c07:frame-location", "[%s] %s: call stack frame %s has unresolvable location %s" % (flavor, where, fr[0], loc), wit)
    st["located_errors"] += 1


def run(tier):
    rep = Report("C07", tier)
    s = seed()
    svh = os.path.join(common.build("dbg"), "svh")
    glob, methods = inventory(svh)
    ncall = len(glob) + sum(len(v) for v in methods.values())
    log("[C07] live inventory: %d globals, %d methods on %d sample values" % (len(glob), sum(len(v) for v in methods.values()), len(methods)))
    ncases = 500 if tier == "quick" else common.tscale(6000)
    per = 200
    cases = []
    files_of = {}
    for i in range(ncases):
        rng = random.Random("%d/c07/%d" % (s, i))
        if i % 5 == 4:
            # scrambled full-dialect programs evaluated one after the other on one module
            evals = []
            for j in range(6):
                src = scramble(rng, gen_full.render(gen_full.gen_program(random.Random(rng.random()), max_stmts=25, inject_fail=0.3)))
                evals.append({"src": src, "file": "s%d.star" % j})
        elif i % 10 == 2:
            # locals assigned on some paths only: 'referenced before assignment' must stay an error, whatever the compiler proved
            evals = [{"src": gen_core.gen_unassigned(random.Random(rng.random())), "file": "u%d.star" % j} for j in range(40)]
        else:
            evals = [{"src": (sn + "\n") if sn.startswith("RL = ") else ("_r = %s\n" % sn if rng.random() < 0.5 else "%s\n" % sn), "file": "e%d.star" % j}
                     for j, sn in enumerate(gen_snippets(rng, glob, methods, per))]
        if i % 7 == 3:
            # names that do not resolve: the failure happens before any statement runs (scope errors)
            for j in range(0, len(evals), 9):
                evals[j] = {"src": "zz_new_%d = 1\nzz_other_%d = undefined_name_%d\n" % (j, j, j), "file": evals[j]["file"]}
        if i % 4 == 1:
            # evaluations ended by the host (cancellation) are failures like any other: the end-of-evaluation check
            # (short item) and the periodic check (long item) must both leave the evaluator and the module usable
            for j in range(3, len(evals), 11):
                body = rng.choice(["cancel()\n", "cancel()\nfor _i in range(2500):\n    pass\n", "def _c():\n    cancel()\n    return [x for x in range(1500)]\n_c()\n"])
                evals[j] = {"src": body, "file": evals[j]["file"], "host_ends": True}
        c = {"id": "h%d" % i, "cfg": {"dialect": "internal", "reuse_eval": i % 2 == 1, "probe": PROBE},
             "units": [{"file": "pre.star", "src": PRELUDE, "evals": evals, "freeze": i % 3 == 0, "snapshot": "all" if i % 3 == 0 else None}]}
        cases.append(c)
        files_of[c["id"]] = dict([("pre.star", PRELUDE), ("probe.star", PROBE)] + [(e["file"], e["src"]) for e in evals])
    # the witness of the open known finding is always part of the workload, so that it is re-observed on every run
    kf = {"id": "h_known_debug", "cfg": {"dialect": "internal", "probe": PROBE},
          "units": [{"file": "pre.star", "src": PRELUDE, "evals": [{"src": "_r = 1 + 1\n", "file": "e0.star"}, {"src": "debug(SELF_L)\n", "file": "e1.star"}]}]}
    cases.append(kf)
    files_of[kf["id"]] = {"pre.star": PRELUDE, "probe.star": PROBE, "e0.star": "_r = 1 + 1\n", "e1.star": "debug(SELF_L)\n"}
    flavors = [("dbg", len(cases))] if tier == "quick" else [("dbg", len(cases)), ("rel", len(cases)), ("asan", 300)]
    st = {"items": 0, "ok": 0, "err": 0, "located_errors": 0, "no_span": 0, "probes": 0, "kinds": {}}
    distinct = set()
    for flavor, nf in flavors:
        try:
            svh = os.path.join(common.build(flavor), "svh")
        except common.BuildError as e:
            if flavor == "dbg":
                raise
            rep.inconc("flavor %s unavailable" % flavor, str(e)[-300:])
            continue
        asan = flavor == "asan"
        env = {"ASAN_OPTIONS": "abort_on_error=1:detect_leaks=0:allocator_may_return_null=1"} if asan else None
        batch = common.run_cases(svh, "run", cases[:nf], "c07_" + flavor, shards=NCPU, timeout=3000, env_extra=env, asan_like=asan, mem_gb=6, per_case_timeout=120)
        for cr in batch.crashes:
            # find the culprit item(s) by evaluating every item of the history alone
            hist = cr["case"]
            evals = hist["units"][0]["evals"]
            singles = [{"id": "i%d" % j, "cfg": hist["cfg"], "units": [{"file": "pre.star", "src": PRELUDE, "evals": [e]}]} for j, e in enumerate(evals)]
            b2 = common.run_cases(svh, "run", singles, "c07_bisect", shards=NCPU, timeout=600, env_extra=env, asan_like=asan, mem_gb=6, per_case_timeout=120)
            if not b2.crashes:
                rep.violation("c07:" + common.crash_signature(cr) + ":history", "[%s] process died while evaluating history %s (no single item reproduces it): %s" % (
                    flavor, cr["id"], ((cr.get("confirm") or {}).get("stderr") or "")[-300:]), {"flavor": flavor, "case": hist, "crash": cr.get("confirm")})
            for c2 in b2.crashes:
                item = evals[int(c2["id"][1:])]["src"].strip()
                err = ((c2.get("confirm") or {}).get("stderr") or "")
                rep.violation(crash_sig(item, err), "[%s] process died evaluating `%s`: %s" % (flavor, item[:200], err.strip()[-200:]),
                              {"flavor": flavor, "case": c2["case"], "crash": c2.get("confirm")})
        for inc in batch.inconclusive:
            rep.inconc(inc["why"], inc.get("id"))
        for c in cases[:nf]:
            evs = batch.events.get(c["id"])
            if evs is None:
                continue
            files = files_of[c["id"]]
            for e in evs:
                if e[0] == "panic":
                    if common.is_oom_text(e[1]):
                        rep.inconc("allocation failure", c["id"])
                    else:
                        rep.violation("c07:panic:" + re.sub(r"[0-9]+", "N", e[1])[:90], "[%s] %s: panic: %s (after %d completed evaluations)" % (
                            flavor, c["id"], e[1], len([x for x in evs if x[0] == "r"]) // 2), {"flavor": flavor, "case": c})
                if e[0] != "r":
                    continue
                file, idx, kind = e[1], e[2], e[3]
                if file == "probe.star":
                    st["probes"] += 1
                    if kind != "ok" or e[4] != PROBE_EXPECT:
                        prev = [x for x in evs if x[0] == "r" and x[2] == idx and x[1] != "probe.star"]
                        rep.violation("c07:probe:%s" % (json.dumps(e[4])[:60] if kind == "ok" else e[4].get("msg", "")[:60]),
                                      "[%s] %s: after evaluation #%d (%s) the probe program gives %s instead of %s" % (
                                          flavor, c["id"], idx, json.dumps(prev)[:200], json.dumps(e[4])[:200], PROBE_EXPECT), {"flavor": flavor, "case": c, "item": idx})
                    continue
                st["items"] += 1
                depth = e[5] if len(e) > 5 else 0
                if depth != 0:
                    rep.violation("c07:call-stack-not-empty", "[%s] %s: after evaluation #%d call_stack_count() = %d" % (flavor, c["id"], idx, depth), {"flavor": flavor, "case": c, "item": idx})
                if kind == "ok":
                    st["ok"] += 1
                elif kind == "err":
                    st["err"] += 1
                    k = e[4].get("kind")
                    st["kinds"][k] = st["kinds"].get(k, 0) + 1
                    distinct.add(re.sub(r"`[^`]*`|[0-9]+", "_", e[4].get("msg", ""))[:80])
                    if "ancel" in e[4].get("msg", "") and files.get(file, "").startswith(("cancel()", "def _c()")):
                        st["host_ended"] = st.get("host_ended", 0) + 1
                        continue  # ended by the host: no source position is demanded, everything after it is
                    judge_err(rep, e[4], "%s item %d (%s): %s" % (c["id"], idx, file, files.get(file, "")[:160].strip()), c, files, flavor, st)
                elif kind == "parse_err":
                    st["err"] += 1
    rep.coverage = {
        "evaluations": st["items"],
        "distinct_nontrivial": len(distinct),
        "rule": "evaluation = one snippet/program evaluated as one item of a history on a shared module (fresh evaluator per item in even histories, one reused evaluator in odd ones), followed by the probe; "
                "distinct_nontrivial = distinct error messages (identifiers and numbers masked) whose span/call stack/kind were checked",
        "samples": [{"snippets": [e["src"].strip() for e in cases[0]["units"][0]["evals"][:12]]}],
        "live_inventory": {"globals": len(glob), "methods": sum(len(v) for v in methods.values()), "receivers": sorted(methods)},
        "items_ok": st["ok"],
        "items_failed": st["err"],
        "errors_with_checked_location": st["located_errors"],
        "probe_evaluations": st["probes"],
        "items_ended_by_host_cancellation": st.get("host_ended", 0),
        "error_kinds": st["kinds"],
        "flavors": [f for f, _ in flavors],
    }
    rep.assumptions = ["allocation failure (address-space limit) and timeouts are inconclusive, never violations",
                       "sizes in generated arguments are bounded so that products stay <= 2^24 (BIG_S 4 KiB, BIG_L 4096 elements, multipliers <= 65536)"]
    rep.finish(sanity_ok=st["items"] > ncases * 20 and st["err"] > 100 and st["probes"] > 100, sanity_msg="too few evaluations")


def replay(rep):
    w = rep["witness"]
    svh = os.path.join(common.build(w.get("flavor", "dbg") if w.get("flavor") != "asan" else "dbg"), "svh")
    batch = common.run_cases(svh, "run", [w["case"]], "c07_replay", shards=1)
    if batch.crashes:
        print("crash", json.dumps(batch.crashes[0].get("confirm"))[:2000])
        return 1
    evs = batch.events.get(w["case"]["id"], [])
    bad = [e for e in evs if e[0] == "panic" or (e[0] == "r" and e[1] == "probe.star" and (e[3] != "ok" or e[4] != PROBE_EXPECT))]
    print(json.dumps(bad)[:2000])
    if "item" in w:
        print(w["case"]["units"][0]["evals"][w["item"] - 1] if w["item"] > 0 else "")
    return 1 if bad else 0
