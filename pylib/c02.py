"""C02: compile-time optimisation never changes what a program does (metamorphic).
Equivalence classes: a program and its opacified variants (literals / callees / receivers hidden behind a
native identity function the optimiser knows nothing about, globals assigned twice), and the same function
executed unfrozen, frozen-and-loaded, and called from the host. All transcripts (values, side-effect order,
error message head) must be identical to the fully opacified variant."""
import json
import os
import random

import common
import gen_full
import rewrite
from common import NCPU, Report, log, seed


def norm(evs):
    out = []
    for e in evs:
        if e[0] in ("e", "p"):
            out.append(e)
        elif e[0] == "r":
            if e[3] == "ok":
                out.append(["end", "ok"])
            elif e[3] == "err":
                out.append(["end", "err", e[4].get("msg")])
            else:
                out.append(["end", e[3], json.dumps(e[4])[:200]])
        elif e[0] == "call":
            if e[2] == "ok":
                out.append(["end", "ok"])
            elif e[2] == "err":
                out.append(["end", "err", e[3].get("msg")])
            else:
                out.append(["end", e[2]])
        elif e[0] in ("panic", "internal", "stackleak", "freeze_err"):
            out.append(e)
    return out


def last_end_only(tr):
    """In load/host modes there are several 'end' records (library module, then the call); keep events and the last end."""
    evs = [e for e in tr if e[0] != "end"]
    ends = [e for e in tr if e[0] == "end"]
    errs = [e for e in ends if e[1] != "ok"]
    # the outcome is the first failure (e.g. the library module itself failing), else the last end
    return evs + (errs[:1] if errs else ends[-1:])


def make_cases(i, s):
    rng = random.Random("%d/c02/%d" % (s, i))
    cases = []
    # --- module-level group
    lines = gen_full.gen_program(rng, max_stmts=rng.choice([15, 30, 50]), inject_fail=0.3)
    src = gen_full.render(lines)
    try:
        vs = rewrite.variants(src)
    except SyntaxError as e:
        return [], {"skip": str(e)}
    for name, text in vs.items():
        cases.append({"id": "p%d/m/%s" % (i, name), "cfg": {"dialect": "internal"}, "units": [{"file": "p.star", "src": text}]})
    # --- function group (no module-level-only type declarations inside)
    rng2 = random.Random("%d/c02f/%d" % (s, i))
    g = gen_full.FullGen(rng2, max_stmts=rng2.choice([15, 30]), inject_fail=0.3, allow_type_decls=False)
    flines = g.program()
    body = gen_full.render(flines, module_level=False)  # def main(): ... main()
    defs = body[: body.rindex("main()\n")]
    try:
        fv = rewrite.variants(defs, which=("v0", "v3"))
    except SyntaxError as e:
        return cases, {"skip": str(e)}
    for name, text in fv.items():
        cases.append({"id": "p%d/f0/%s" % (i, name), "cfg": {"dialect": "internal"}, "units": [{"file": "a.star", "src": text + "main()\n"}]})
        cases.append({"id": "p%d/m1/%s" % (i, name), "cfg": {"dialect": "internal"},
                      "units": [{"file": "a.star", "src": text, "freeze": True}, {"file": "b.star", "src": 'load("a.star", "main")\nmain()\n'}]})
        cases.append({"id": "p%d/m2/%s" % (i, name), "cfg": {"dialect": "internal"},
                      "units": [{"file": "a.star", "src": text, "freeze": True, "post_freeze_calls": [{"fn": "main"}]}]})
    return cases, {"src": src}


def run(tier):
    rep = Report("C02", tier)
    s = seed()
    n = 500 if tier == "quick" else common.tscale(12000)
    cases = []
    skipped = 0
    for i in range(n):
        cs, info = make_cases(i, s)
        if "skip" in info:
            skipped += 1
        cases.extend(cs)
    flavors = ["dbg"] if tier == "quick" else ["dbg", "rel"]
    compared = 0
    groups_ok = 0
    distinct = set()
    failing = 0
    samples = []
    for flavor in flavors:
        svh = os.path.join(common.build(flavor), "svh")
        batch = common.run_cases(svh, "run", cases, "c02_" + flavor, shards=NCPU, timeout=3000)
        for cr in batch.crashes:
            rep.violation("c02:" + common.crash_signature(cr), "[%s] crash in %s" % (flavor, cr["id"]), {"flavor": flavor, "case": cr["case"], "crash": cr.get("confirm")})
        for inc in batch.inconclusive:
            rep.inconc(inc["why"], inc.get("id"))
        byp = {}
        for c in cases:
            if c["id"] in batch.events:
                p, grp, v = c["id"].split("/")
                byp.setdefault((p, "m" if grp == "m" else "f"), {})[(grp, v)] = (c, batch.events[c["id"]])
        for (p, kind), runs in byp.items():
            refkey = ("m", "v3") if kind == "m" else ("f0", "v3")
            if refkey not in runs:
                continue
            ref = last_end_only(norm(runs[refkey][1]))
            ok = True
            for key, (c, evs) in runs.items():
                got = last_end_only(norm(evs))
                bad = [e for e in got if e[0] in ("panic", "internal", "stackleak")]
                if bad and common.is_oom_text(str(bad[0][1])):
                    rep.inconc("allocation failure", c["id"])
                    ok = False
                    continue
                if bad:
                    rep.violation("c02:%s:%s" % (bad[0][0], str(bad[0][1])[:60]), "[%s] %s: %s" % (flavor, c["id"], json.dumps(bad[0])[:300]), {"flavor": flavor, "case": c})
                    ok = False
                    continue
                if key == refkey:
                    continue
                compared += 1
                if got != ref:
                    k = 0
                    while k < min(len(got), len(ref)) and got[k] == ref[k]:
                        k += 1
                    a = json.dumps(got[k])[:250] if k < len(got) else "<end>"
                    b = json.dumps(ref[k])[:250] if k < len(ref) else "<end>"
                    rep.violation("c02:differs:%s-%s:%s" % (key[0], key[1], _focus(a, b)),
                                  "[%s] %s differs from the fully opacified variant %s at event %d: %s  vs  %s" % (flavor, c["id"], "/".join(refkey), k, a, b),
                                  {"flavor": flavor, "case": c, "ref_case": runs[refkey][0], "event_index": k})
                    ok = False
            if ok:
                groups_ok += 1
                if len(ref) > 5:
                    distinct.add(hash(json.dumps(ref[:40])))
                if ref and ref[-1][:2] == ["end", "err"]:
                    failing += 1
                if len(samples) < 2 and kind == "m" and len(ref) > 20:
                    samples.append({"program": p, "variants": sorted("/".join(k) for k in runs), "v3_source_head": runs[refkey][0]["units"][0]["src"][:900]})
    rep.coverage = {
        "evaluations": compared,
        "distinct_nontrivial": len(distinct),
        "rule": "evaluation = one (variant, execution mode) run compared with the fully opacified run of the same program; distinct_nontrivial = distinct reference transcripts with more than 5 events",
        "samples": samples,
        "programs": n,
        "equivalence_groups_agreeing": groups_ok,
        "groups_ending_in_an_error": failing,
        "programs_skipped_by_rewriter": skipped,
        "variants": ["v0 printed", "v1 literals opaque", "v2 callees/receivers opaque", "v3 both", "v4 globals assigned twice"],
        "modes": ["module level", "in function same module", "frozen + load + call", "frozen + host eval_function"],
        "flavors": flavors,
    }
    rep.assumptions = ["opaque() is a native identity function: nothing behind it can be folded, inlined, specialised or speculatively executed",
                       "error call stacks and locations legitimately differ between variants and are not compared; the message head is"]
    rep.finish(sanity_ok=compared > n * 3 and failing > 0, sanity_msg="too few comparisons")


def _focus(a, b):
    import re
    return re.sub(r"[0-9]+", "N", a)[:40]


def replay(rep):
    w = rep["witness"]
    svh = os.path.join(common.build(w.get("flavor", "dbg")), "svh")
    cs = [w["case"]] + ([w["ref_case"]] if "ref_case" in w else [])
    batch = common.run_cases(svh, "run", cs, "c02_replay", shards=1)
    trs = [last_end_only(norm(batch.events.get(c["id"], []))) for c in cs]
    for c in cs:
        print("=== ", c["id"])
        for u in c["units"]:
            print(u["src"])
    if len(trs) == 2:
        print("same" if trs[0] == trs[1] else "DIFFERENT")
        for k, (a, b) in enumerate(zip(trs[0], trs[1])):
            if a != b:
                print(k, json.dumps(a)[:400], "\n  vs", json.dumps(b)[:400])
                break
        return 0 if trs[0] == trs[1] else 1
    print(json.dumps(trs[0])[:2000])
    return 0
