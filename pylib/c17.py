"""C17: the static type checker is sound where it commits and silent on well-typed code.
Monitors: (1) no panic / process death on any parseable module (also ill-typed ones from other generators);
(2) diagnostics, type map, interface are identical when the checker runs twice; (3) no error on modules that are well
typed by construction; (4) soundness: whenever the checker gives a binding a definite type (no Any inside, no
approximation recorded for the module), every run-time value observed for that binding belongs to the type
(membership decided by the C16 oracle on the rendered type) and isinstance(value, rendered interface type) holds for
exported bindings."""
import json
import os
import random
import re

import common
import gen_core
import gen_full
import c16
from common import NCPU, Report, log, seed


# ---- parser for rendered types -> C16 type AST (None = not understood / not committed)
class TP:
    def __init__(self, s):
        self.s = s
        self.i = 0

    def ws(self):
        while self.i < len(self.s) and self.s[self.i] == " ":
            self.i += 1

    def eat(self, t):
        self.ws()
        if self.s.startswith(t, self.i):
            self.i += len(t)
            return True
        return False

    def union(self):
        parts = [self.atom()]
        while self.eat("|"):
            parts.append(self.atom())
        if any(p is None for p in parts):
            return None
        return parts[0] if len(parts) == 1 else ("union", tuple(parts))

    def atom(self):
        self.ws()
        for kw, ast_ in (("typing.Any", ("any",)), ("typing.Never", ("never",)), ("None", ("none",)), ("typing.Iterable", ("iterable",))):
            if self.eat(kw):
                return ast_
        if self.eat("typing.Callable"):
            if self.eat("["):
                depth = 1
                while self.i < len(self.s) and depth:
                    depth += {"[": 1, "]": -1}.get(self.s[self.i], 0)
                    self.i += 1
            return ("callable",)
        if self.eat("def("):
            return None  # function types: not a type expression; handled separately
        if self.eat("("):
            items = []
            if self.eat(")"):
                return ("tuple_n", ())
            while True:
                items.append(self.union())
                if self.eat(")"):
                    break
                if not self.eat(","):
                    return None
                if self.eat(")"):
                    break
            if any(x is None for x in items):
                return None
            return ("tuple_n", tuple(items))
        m = re.match(r"[A-Za-z_][A-Za-z_0-9.]*", self.s[self.i:])
        if not m:
            return None
        name = m.group(0)
        self.i += len(name)
        if name in ("int", "str", "bool", "float"):
            return ("prim", name)
        if name in ("list", "set"):
            if self.eat("["):
                t = self.union()
                if not self.eat("]"):
                    return None
                return None if t is None else (name, t)
            return (name, ("any",))
        if name == "dict":
            if self.eat("["):
                k = self.union()
                if not self.eat(","):
                    return None
                v = self.union()
                if not self.eat("]"):
                    return None
                return None if k is None or v is None else ("dict", k, v)
            return ("dict", ("any",), ("any",))
        if name == "tuple":
            if self.eat("["):
                t = self.union()
                if not (self.eat(",") and self.eat("...") and self.eat("]")):
                    return None
                return None if t is None else ("tuple_of", t)
            return ("tuple",)
        if name == "range":
            return ("range",)
        if name == "struct":
            return None
        return None


def parse_type(s):
    p = TP(s)
    t = p.union()
    p.ws()
    if p.i != len(s):
        return None
    return t


def has_any(t):
    if t is None:
        return True
    if t[0] == "any":
        return True
    return any(has_any(x) for x in t[1:] if isinstance(x, tuple) and x and isinstance(x[0], str)) or any(
        has_any(y) for x in t[1:] if isinstance(x, tuple) and x and isinstance(x[0], tuple) for y in x)


def desc_of(enc):
    """Value descriptor (C16) from a canonical encoding; None = not describable (then the value is skipped)."""
    if enc is None:
        return ("none",)
    if enc is True or enc is False:
        return ("bool",)
    if isinstance(enc, str):
        return {"i": ("int",), "s": ("str",), "f": ("float",)}.get(enc[0])
    if isinstance(enc, list) and enc:
        k = enc[0]
        if k in ("l", "t"):
            items = [desc_of(x) for x in enc[1:]]
            if any(i is None for i in items):
                return None
            return ("list" if k == "l" else "tuple", tuple(items))
        if k == "d":
            items = [(desc_of(a), desc_of(b)) for a, b in enc[1:]]
            if any(a is None or b is None for a, b in items):
                return None
            return ("dict", tuple(items))
        if k == "o" and enc[1] == "function":
            return ("callable",)
        if k == "o" and enc[1] == "range":
            return ("range",)
    return None


def typed_program(rng):
    """A module that is well typed by construction: the type-directed core generator without failure injection."""
    lines = gen_core.gen_program(rng, max_stmts=rng.choice([15, 30, 50]), inject_fail=0.0, risk=0.0, no_mutation=True, tick_p=0.0)
    out = []
    for ind, t in lines:
        m = re.fullmatch(r"emit\(([A-Za-z_][A-Za-z_0-9]*)\)", t)
        if m:
            t = 'emit("P", "%s", %s)' % (m.group(1), m.group(1))
        out.append((ind, t))
    return out


def self_referential_bodies(rng, n):
    inits = {"list": ["[]", "[1]", "[\"a\", 2]"], "dict": ["{}", "{\"k\": 1}"], "tuple": ["()", "(1,)"], "set": ["set()"]}
    wraps = ["X", "(X,)", "[X]", "(X, X)", "{\"k\": X}", "[X, (X,)]", "(X, [X], 1)", "{1: (X,)}", "[[X]]", "(X, \"s\", X)", "struct(a=X)", "[x for x in [X]]", "(X if True else 1)"]
    out = []
    for _ in range(n):
        kind = rng.choice(list(inits))
        L = ["def f(n):", "    x = %s" % rng.choice(inits[kind])]
        loop = rng.random() < 0.5
        ind = "    "
        if loop:
            L.append("    for i in range(n):")
            ind = "        "
        for _ in range(rng.randint(1, 3)):
            w = rng.choice(wraps)
            if kind == "list":
                L.append(ind + rng.choice(["x.append(%s)", "x.extend([%s])", "x = x + [%s]", "x += [%s]", "x.insert(0, %s)", "x = [%s]"]) % w.replace("X", "x"))
            elif kind == "dict":
                L.append(ind + rng.choice(["x[\"s\"] = %s", "x.update({\"u\": %s})", "x = {\"w\": %s}", "x.setdefault(\"d\", %s)", "x |= {\"o\": %s}"]) % w.replace("X", "x"))
            elif kind == "tuple":
                L.append(ind + rng.choice(["x = (%s, x)", "x = x + (%s,)", "x = (%s,)"]) % w.replace("X", "x"))
            else:
                L.append(ind + "x = set([len(x)]) | x")
                L.append(ind + "y = [%s]" % w.replace("X", "x"))
                L.append(ind + "y.append((y, x))")
        L.append("    return x")
        L.append("r = f(2)")
        L.append("emit(\"P\", \"n\", len(repr(r)))")
        out.append("\n".join(L) + "\n")
    return out


def annotate(rng, lines):
    """Add parameter / return annotations the generator knows to be right (types tracked by the generator)."""
    return lines


def run(tier):
    rep = Report("C17", tier)
    s = seed()
    n = 600 if tier == "quick" else common.tscale(20000)
    cases, kinds = [], {}
    for i in range(n):
        rng = random.Random("%d/c17/%d" % (s, i))
        k = i % 6
        if k < 3:
            src = gen_core.render(typed_program(rng), module_level=False)  # def main(): ... (the checker works on function bodies)
            kind = "typed-in-function"
        elif k == 3:
            src = gen_core.render(typed_program(rng), module_level=True)
            kind = "typed-module-level"
        elif k == 4:
            g = gen_full.FullGen(rng, max_stmts=rng.choice([15, 30]), inject_fail=0.0, risk=0.0, annotations=True)
            src = gen_full.render(g.program(), module_level=True)
            kind = "full-dialect-annotated"
        else:
            import c07
            src = c07.scramble(rng, gen_full.render(gen_full.gen_program(rng, max_stmts=25, inject_fail=0.3)))
            kind = "ill-typed"
        cid = "m%d" % i
        kinds[cid] = kind
        cases.append({"id": cid, "src": src, "dialect": "internal", "eval": True})
    # bindings defined in terms of themselves: the inferred type grows with every round of the checker's fixed point
    for j, body in enumerate(self_referential_bodies(random.Random("%d/c17self" % s), 40 if tier == "quick" else 400)):
        cid = "s%d" % j
        kinds[cid] = "self-referential"
        cases.append({"id": cid, "src": body, "dialect": "internal", "eval": True})
    flavors = ["dbg"] if tier == "quick" else ["dbg", "rel"]
    st = {"modules": 0, "silent": 0, "tc_errors_on_illtyped": 0, "bindings_checked": 0, "bindings_uncommitted": 0, "iface_checked": 0, "values": 0, "approx_modules": 0}
    distinct = set()
    samples = []
    for flavor in flavors:
        svh = os.path.join(common.build(flavor), "svh")
        # termination, restated as bounded progress: a module of a few KB is checked within CPU_LIMIT seconds of CPU time.
        # In the batch a wall-clock watchdog (generous) only singles the module out; alone it runs under RLIMIT_CPU.
        CPU_LIMIT = 240
        batch = common.run_cases(svh, "typecheck", cases, "c17_" + flavor, shards=NCPU, timeout=3000, per_case_timeout=3600, opts={"case_timeout_s": "180"},
                                 cpu_limit_alone=CPU_LIMIT)
        for cr in batch.crashes:
            rc2 = (cr.get("confirm") or {}).get("rc")
            if rc2 in (-24, -9):
                rep.violation("c17:does-not-terminate", "[%s] checking module %s (%d bytes) alone did not finish within %d s of CPU time" % (
                    flavor, cr["id"], len(cr["case"].get("src", "")), CPU_LIMIT), {"flavor": flavor, "case": cr["case"], "crash": cr.get("confirm")})
                continue
            rep.violation("c17:" + common.crash_signature(cr), "[%s] checker/evaluator process died on module %s" % (flavor, cr["id"]), {"flavor": flavor, "case": cr["case"], "crash": cr.get("confirm")})
        for inc in batch.inconclusive:
            rep.inconc(inc["why"], inc.get("id"))
        for c in cases:
            evs = batch.events.get(c["id"])
            if evs is None:
                continue
            kind = kinds[c["id"]]
            wit = {"flavor": flavor, "case": c, "kind": kind}
            st["modules"] += 1
            tc = None
            probes = {}
            evalr = None
            iface = None
            for e in evs:
                if e[0] == "panic":
                    if common.is_oom_text(e[1]):
                        rep.inconc("allocation failure", c["id"])
                    else:
                        rep.violation("c17:panic:" + re.sub(r"[0-9]+", "N", e[1])[:90], "[%s] %s (%s): panic %s" % (flavor, c["id"], kind, e[1]), wit)
                elif e[0] == "typecheck":
                    tc = e[1]
                elif e[0] == "typecheck_unstable":
                    rep.violation("c17:nondeterministic", "[%s] %s: two runs of the checker on the same source differ" % (flavor, c["id"]), wit)
                elif e[0] == "e" and len(e) > 3 and e[1] == "sP":
                    probes.setdefault(e[2][1:], []).append(e[3])
                elif e[0] == "eval":
                    evalr = e
                elif e[0] == "iface":
                    iface = e
            if tc is None:
                continue
            distinct.add(hash(tc["typemap"]))
            if kind.startswith("typed"):
                if tc["errors"]:
                    first = tc["errors"][0]
                    head = first.splitlines()[0]
                    rep.violation("c17:not-silent:" + re.sub(r"`[^`]*`", "`_`", head)[:70], "[%s] %s is well typed by construction but the checker reports: %s" % (flavor, c["id"], first[:400]), wit)
                else:
                    st["silent"] += 1
            elif kind == "ill-typed":
                st["tc_errors_on_illtyped"] += len(tc["errors"])
            if tc["approximations"]:
                st["approx_modules"] += 1
                continue
            # soundness of committed local/parameter bindings
            tmap = {}
            for line in tc["typemap"].splitlines():
                m = re.match(r"([A-Za-z_][A-Za-z_0-9]*) \(([^)]*)\) = (.*)$", line)
                if m:
                    tmap.setdefault(m.group(1), []).append(m.group(3))
            for name, encs in probes.items():
                tys = tmap.get(name)
                if not tys or len(tys) != 1:
                    continue
                t = parse_type(tys[0])
                if t is None or has_any(t):
                    st["bindings_uncommitted"] += 1
                    continue
                st["bindings_checked"] += 1
                for enc in encs:
                    d = desc_of(enc)
                    if d is None:
                        continue
                    st["values"] += 1
                    r = c16.member(t, d)
                    if r is False:
                        rep.violation("c17:unsound:%s" % re.sub(r"[0-9]+", "N", tys[0])[:50], "[%s] %s: the checker commits `%s: %s` but at run time it holds %s" % (
                            flavor, c["id"], name, tys[0], json.dumps(enc)[:200]), wit)
                        break
            # exported bindings: isinstance(value, rendered interface type) evaluated by the implementation itself
            if iface:
                for name, rendered, vtype, enc, verdict in iface[1]:
                    if "typing.Any" in rendered or verdict[0] != "isinstance":
                        continue
                    st["iface_checked"] += 1
                    if verdict[1] is not True:
                        rep.violation("c17:interface-unsound:%s" % rendered[:40], "[%s] %s: interface says %s: %s but isinstance(%s, %s) is %s (value %s)" % (
                            flavor, c["id"], name, rendered, name, rendered, verdict[1], json.dumps(enc)[:150]), wit)
            if len(samples) < 2 and kind == "typed-in-function" and tmap:
                samples.append({"id": c["id"], "typemap_head": tc["typemap"][:600], "src_head": c["src"][:500]})
    rep.coverage = {
        "evaluations": st["modules"],
        "distinct_nontrivial": len(distinct),
        "rule": "evaluation = one module type-checked twice, linted, evaluated, and confronted with the types the checker committed; distinct_nontrivial = distinct type maps",
        "samples": samples,
        "modules_by_kind": {k: list(kinds.values()).count(k) for k in set(kinds.values())},
        "well_typed_modules_with_no_diagnostic": st["silent"],
        "diagnostics_on_ill_typed_corpus": st["tc_errors_on_illtyped"],
        "committed_bindings_checked_against_runtime": st["bindings_checked"],
        "runtime_values_checked": st["values"],
        "bindings_skipped_as_not_committed": st["bindings_uncommitted"],
        "interface_entries_checked": st["iface_checked"],
        "modules_with_approximations_skipped": st["approx_modules"],
        "flavors": flavors,
    }
    rep.assumptions = ["well-typedness of the silence corpus comes from the type-directed generator (int/str/bool/list/dict/tuple core, risk-free forms only)",
                       "membership is decided by the C16 oracle on the type as rendered by the checker; types it cannot parse or that contain Any count as not committed"]
    rep.finish(sanity_ok=st["modules"] > n * 0.9 and st["bindings_checked"] > 200 and st["silent"] > 50, sanity_msg="too few modules / committed bindings")


def replay(rep):
    w = rep["witness"]
    svh = os.path.join(common.build(w.get("flavor", "dbg")), "svh")
    b = common.run_cases(svh, "typecheck", [w["case"]], "c17_replay", shards=1)
    print(w["case"]["src"])
    for e in b.events.get(w["case"]["id"], []):
        if e[0] in ("typecheck", "iface", "eval", "panic"):
            print(json.dumps(e)[:3000])
    return 1
