"""C19: IDE answers are well-formed and name resolution matches what the program does.
Monitors: every response/notification of the language server (driven over an in-memory connection) is checked for
range well-formedness against the current text under the UTF-16 column convention; go-to-definition on an identifier
use must return a range whose text is that identifier and which is a binding occurrence in the scope the running
program actually read the variable from (every binding's value names its scope; every use emits what it read);
positions in evaluation errors equal independently computed line / character columns."""
import json
import os
import random
import re

import common
from common import NCPU, Report, log, seed

JUNK = ["\U0001F600", "é", "日本", "a\U0001F680b", "üñ", "x", "", "\U0001F469‍\U0001F4BB"]


class Doc:
    def __init__(self, rng, crlf):
        self.r = rng
        self.lines = []  # text lines (no newline)
        self.occ = []  # dict(kind, name, scope, line, idx, use_id, executed)
        self.nuse = 0
        self.nl = "\r\n" if crlf else "\n"
        self.mixed = crlf and rng.random() < 0.3
        self.nscope = 0

    def prefix(self):
        """Non-ASCII material before the interesting token on the same line."""
        k = self.r.randrange(4)
        if k == 0:
            return ""
        return 'j%d = "%s"; ' % (len(self.lines), self.r.choice(JUNK) * self.r.randint(1, 3))

    def suffix(self):
        return "" if self.r.random() < 0.6 else "  # %s" % (self.r.choice(JUNK) * 2)

    def add(self, indent, parts):
        """parts: list of str or (kind, name, scope, extra) tuples marking identifier occurrences."""
        text = "    " * indent
        compound = isinstance(parts[0], str) and parts[0].startswith(("def ", "if "))
        pre = "" if compound else self.prefix()  # `a = 1; def f():` is not valid syntax
        text += pre
        for p in parts:
            if isinstance(p, str):
                text += p
            else:
                kind, name, scope, extra = p
                self.occ.append({"kind": kind, "name": name, "scope": scope, "line": len(self.lines), "idx": len(text), "extra": extra})
                text += name
        text += self.suffix()
        self.lines.append(text)

    def text(self):
        if self.mixed:
            return "".join(l + self.r.choice(["\n", "\r\n"]) for l in self.lines)
        return self.nl.join(self.lines) + self.nl


def u16(s):
    return len(s.encode("utf-16-le")) // 2


def gen_doc(rng, crlf=False):
    """Returns (Doc, uses) where uses maps use_id -> dict(expected scope statically resolved, executed)."""
    d = Doc(rng, crlf)
    names = ["x", "y", "z", "w"]
    uses = {}

    def use(indent, name, env_chain, executed=True):
        # static resolution: innermost scope in the chain that binds `name`
        scope = None
        for entry in reversed(env_chain):
            sc, bound = entry[0], entry[1]
            if name in bound:
                scope = sc
                # a captured variable of an enclosing function must already be assigned when this code runs
                if len(entry) > 2 and name not in entry[2]:
                    executed = False
                break
        d.nuse += 1
        uid = d.nuse
        uses[uid] = {"name": name, "scope": scope, "executed": executed and scope is not None}
        if scope is None:
            return
        if not executed:
            d.add(indent, ["if False:"])
            indent += 1
        d.add(indent, ['emit("U", %d, ' % uid, ("use", name, scope, uid), ")"])

    def bind(indent, name, scope):
        d.add(indent, [("bind", name, scope, None), ' = "%s@%s"' % (name, scope)])

    def function(indent, fname, parent_chain, depth):
        d.nscope += 1
        scope = "%s%d" % (fname, d.nscope)
        # decide which names this function binds (anywhere in its body => local for the whole body)
        local = set(n for n in names if rng.random() < 0.4)
        params = [n for n in names if n not in local and rng.random() < 0.25]
        bound = set(local) | set(params)
        assigned = set(params)
        chain = parent_chain + [(scope, bound, assigned)]
        ptext = []
        head = ["def ", ("bind", fname, parent_chain[-1][0], None), "("]
        for i, p in enumerate(params):
            if i:
                head.append(", ")
            # a default value is evaluated in the *enclosing* scope when the def statement runs: a name read there denotes
            # the outer variable even when the function itself binds that name (as a parameter or a local)
            dn = rng.choice(names)
            outer = None
            for entry in reversed(parent_chain):
                if dn in entry[1]:
                    if len(entry) <= 2 or dn in entry[2]:
                        outer = entry[0]
                    break
            if outer is not None and rng.random() < 0.5:
                d.nuse += 1
                uid2 = d.nuse
                uses[uid2] = {"name": dn, "scope": outer, "executed": True}
                head += [("bind", p, scope, None), '=[emit("U", %d, ' % uid2, ("use", dn, outer, uid2), '), "%s@%s"][1]' % (p, scope)]
            else:
                head += [("bind", p, scope, None), '="%s@%s"' % (p, scope)]
        head.append("):")
        parent_chain[-1][1].add(fname)
        d.add(indent, head)
        body_n = rng.randint(2, 6)
        for _ in range(body_n):
            k = rng.randrange(8)
            if k < 3 and local:
                n = rng.choice(sorted(local))
                bind(indent + 1, n, scope)
                assigned.add(n)
            elif k < 6:
                n = rng.choice(names)
                if n in bound and n not in assigned:
                    # local used before assignment: would fail at run time; the position is still queried for well-formedness
                    uses[d.nuse + 1] = None
                    d.nuse += 1
                    d.add(indent + 1, ["if False:"])
                    d.add(indent + 2, ['emit("U", %d, ' % d.nuse, ("use", n, scope, d.nuse), ")"])
                    uses[d.nuse] = {"name": n, "scope": scope, "executed": False}
                else:
                    use(indent + 1, n, chain)
            elif k == 6 and depth < 2:
                function(indent + 1, "g", chain, depth + 1)
            else:
                # comprehension with its own variable shadowing an outer name
                n = rng.choice(names)
                d.nscope += 1
                cs = "comp%d" % d.nscope
                d.nuse += 1
                uid = d.nuse
                uses[uid] = {"name": n, "scope": cs, "executed": True}
                # the iterable of the first `for` clause is evaluated in the enclosing scope: there the same name,
                # when it is readable, denotes the outer variable although the comprehension rebinds it
                outer = None
                for entry in reversed(chain):
                    if n in entry[1]:
                        if len(entry) <= 2 or n in entry[2]:
                            outer = entry[0]
                        break
                if outer is not None and rng.random() < 0.6:
                    d.nuse += 1
                    uid2 = d.nuse
                    uses[uid2] = {"name": n, "scope": outer, "executed": True}
                    d.add(indent + 1, ['_c%d = [emit("U", %d, ' % (uid, uid), ("use", n, cs, uid), ") for ", ("bind", n, cs, None), ' in [emit("U", %d, ' % uid2,
                                       ("use", n, outer, uid2), '), "%s@%s"][1:]]' % (n, cs)])
                else:
                    d.add(indent + 1, ['_c%d = [emit("U", %d, ' % (uid, uid), ("use", n, cs, uid), ") for ", ("bind", n, cs, None), ' in ["%s@%s"]]' % (n, cs)])
        for n in sorted(local - assigned):
            bind(indent + 1, n, scope)
        # a lambda with a parameter
        if rng.random() < 0.4:
            n = rng.choice(names)
            d.nscope += 1
            ls = "lam%d" % d.nscope
            d.nuse += 1
            uid = d.nuse
            uses[uid] = {"name": n, "scope": ls, "executed": True}
            outer = None
            for entry in reversed(chain):
                if n in entry[1]:
                    if len(entry) <= 2 or n in entry[2]:
                        outer = entry[0]
                    break
            if outer is not None and rng.random() < 0.5:
                d.nuse += 1
                uid2 = d.nuse
                uses[uid2] = {"name": n, "scope": outer, "executed": True}
                d.add(indent + 1, ["_l%d = (lambda " % uid, ("bind", n, ls, None), '=[emit("U", %d, ' % uid2, ("use", n, outer, uid2), '), "%s@%s"][1]: emit("U", %d, ' % (n, ls, uid),
                                   ("use", n, ls, uid), "))()"])
            else:
                d.add(indent + 1, ["_l%d = (lambda " % uid, ("bind", n, ls, None), '="%s@%s": emit("U", %d, ' % (n, ls, uid), ("use", n, ls, uid), "))()"])
        d.add(indent + 1, ["pass"])
        # call it
        d.add(indent, [("use", fname, parent_chain[-1][0], None), "()"])

    mod_bound = set()
    chain = [("M", mod_bound)]
    if rng.random() < 0.5:
        d.lines.append("# %s header comment %s" % (rng.choice(JUNK), rng.choice(JUNK)))
    for n in names:
        if rng.random() < 0.7:
            bind(0, n, "M")
            mod_bound.add(n)
    for _ in range(rng.randint(1, 3)):
        function(0, "f", chain, 0)
        n = rng.choice(names)
        if n in mod_bound:
            use(0, n, chain)
        if rng.random() < 0.4:
            n = rng.choice(names)
            bind(0, n, "M")
            mod_bound.add(n)
    return d, uses


def check_range(rep, rng_json, text_lines, what, wit):
    """LSP range well-formedness against the current text (UTF-16 columns)."""
    try:
        s, e = rng_json["start"], rng_json["end"]
        sl, sc, el, ec = s["line"], s["character"], e["line"], e["character"]
    except Exception:
        rep.violation("c19:malformed-range", "%s: malformed range %s" % (what, json.dumps(rng_json)[:100]), wit)
        return False
    n = len(text_lines)
    for l, c in ((sl, sc), (el, ec)):
        # a position may denote the very end of the document: (n, 0) when the text ends with a newline
        if l > n or (l == n and c != 0):
            rep.violation("c19:range-line-out-of-document", "%s: position %d:%d but the document has %d lines" % (what, l, c, n), wit)
            return False
        if l < n and c > u16(text_lines[l]):
            rep.violation("c19:range-character-beyond-line", "%s: position %d:%d but that line has %d UTF-16 units" % (what, l, c, u16(text_lines[l])), wit)
            return False
    if (sl, sc) > (el, ec):
        rep.violation("c19:range-start-after-end", "%s: range %s" % (what, json.dumps(rng_json)), wit)
        return False
    return True


def slice_u16(line, a, b):
    raw = line.encode("utf-16-le")
    return raw[2 * a:2 * b].decode("utf-16-le", "replace")


def astral(s):
    return any(ord(ch) > 0xFFFF for ch in s)


def split_lines(text):
    # the protocol recognises \n, \r\n and \r as line terminators
    return re.split(r"\r\n|\n|\r", text)


def run(tier):
    rep = Report("C19", tier)
    s = seed()
    n = 250 if tier == "quick" else common.tscale(6000)
    cases, meta = [], {}
    rcases = []
    for i in range(n):
        rng = random.Random("%d/c19/%d" % (s, i))
        d, uses = gen_doc(rng, crlf=(i % 3 == 1))
        text = d.text()
        uri = "file:///ws/doc%d.star" % i
        ops = []
        # notification history before the requests
        hist = rng.randrange(5)
        if hist == 0:
            ops.append({"op": "open", "uri": uri, "text": text})
        elif hist == 1:
            ops += [{"op": "open", "uri": uri, "text": "zzz = 1\n" + text}, {"op": "change", "uri": uri, "text": text}]
        elif hist == 2:
            ops += [{"op": "open", "uri": uri, "text": text}, {"op": "change", "uri": uri, "text": "def broken(:\n"}, {"op": "change", "uri": uri, "text": text}]
        elif hist == 3:
            ops += [{"op": "open", "uri": uri, "text": "q = 1\n"}, {"op": "close", "uri": uri}, {"op": "open", "uri": uri, "text": text}]
        else:
            ops += [{"op": "open", "uri": uri, "text": "\n\n\n" + text}, {"op": "change", "uri": uri, "text": "x = (\n"}, {"op": "change", "uri": uri, "text": "y = 2\n" + text}, {"op": "change", "uri": uri, "text": text}]
        ops.append({"op": "sync", "uri": uri})
        lines = split_lines(text)
        reqs = {}
        for o in d.occ:
            col = u16(d.lines[o["line"]][:o["idx"]]) + rng.choice([0, 0, 1]) * (1 if len(o["name"]) > 1 else 0)
            reqs[len(ops)] = ("occ", o)
            ops.append({"op": "definition", "uri": uri, "line": o["line"], "character": col})
            if rng.random() < 0.2:
                reqs[len(ops)] = ("hover", o)
                ops.append({"op": "hover", "uri": uri, "line": o["line"], "character": col})
        # other positions: inside astral characters, past end of line, past end of file, whitespace
        for _ in range(12):
            li = rng.randrange(len(lines) + 2)
            width = u16(lines[li]) if li < len(lines) else 0
            ch = rng.choice([0, rng.randint(0, width + 1), width, width + 5, rng.randint(0, max(1, width))])
            kind = rng.choice(["definition", "hover", "completion"])
            reqs[len(ops)] = ("other", {"line": li, "character": ch, "in_doc": li < len(lines) and ch <= width})
            ops.append({"op": kind, "uri": uri, "line": li, "character": ch})
        cid = "d%d" % i
        cases.append({"id": cid, "files": {"/ws/doc%d.star" % i: text}, "ops": ops})
        meta[cid] = (d, uses, text, reqs, uri)
        # the same document is evaluated: which binding does each executed use read? plus an error at a known position
        j = rng.choice(JUNK)
        err_line = 'e1 = "%s%s"; fail("boom %s")' % (j, j, rng.choice(JUNK))
        rcases.append({"id": cid, "cfg": {"dialect": "internal"}, "units": [{"file": "doc%d.star" % i, "src": text + err_line + "\n"}]})
        meta[cid] += (err_line,)
    svh = os.path.join(common.build("dbg"), "svh")
    b_lsp = common.run_cases(svh, "lsp", cases, "c19_lsp", shards=NCPU, timeout=3000, per_case_timeout=120)
    b_run = common.run_cases(svh, "run", rcases, "c19_run", shards=NCPU, timeout=3000)
    for b in (b_lsp, b_run):
        for cr in b.crashes:
            rep.violation("c19:" + common.crash_signature(cr), "process died in %s: %s" % (cr["id"], ((cr.get("confirm") or {}).get("stderr") or "")[-300:]), {"case": cr["case"]["id"], "crash": cr.get("confirm")})
        for inc in b.inconclusive:
            rep.inconc(inc["why"], inc.get("id"))
    st = {"responses": 0, "definitions_checked": 0, "resolution_checked": 0, "ranges": 0, "diagnostics": 0, "error_positions": 0, "docs": 0, "uses_executed": 0}
    for c in cases:
        evs = b_lsp.events.get(c["id"])
        if evs is None:
            continue
        d, uses, text, reqs, uri, err_line = meta[c["id"]]
        lines = split_lines(text)
        wit = {"case": c["id"], "text": text}
        st["docs"] += 1
        # what the program read
        read = {}
        revs = b_run.events.get(c["id"]) or []
        for e in revs:
            if e[0] == "e" and len(e) > 3 and e[1] == "sU":
                read[int(e[2][1:])] = e[3][1:] if isinstance(e[3], str) else None
            if e[0] == "r" and e[2] == 0:
                # independent position arithmetic for the error span: line = last line, column counted in characters
                if e[3] == "err" and e[4].get("msg", "").startswith("fail: boom"):
                    sp = e[4]["span"]
                    want_line = len(split_lines(text)) - 1
                    want_col = err_line.index("fail(")
                    st["error_positions"] += 1
                    want_end = len(err_line)  # the call expression extends to the end of the line; columns count characters
                    if sp["bl"] != want_line or sp["bc"] != want_col:
                        rep.violation("c19:error-position", "%s: fail() reported at %d:%d but it is at line %d, character %d of %r" % (c["id"], sp["bl"], sp["bc"], want_line, want_col, err_line), wit)
                    elif sp["el"] != want_line or sp["ec"] != want_end:
                        rep.violation("c19:error-position-end", "%s: the span of fail(...) is reported to end at %d:%d but it ends at line %d, character %d of %r" % (
                            c["id"], sp["el"], sp["ec"], want_line, want_end, err_line), wit)
                elif e[3] == "err":
                    rep.inconc("document failed before its end (generator)", {"id": c["id"], "msg": e[4].get("msg")})
        end = [e for e in evs if e[0] == "server_end"]
        if not end or end[0][1] != "ok":
            rep.violation("c19:server-end:%s" % (end[0][1][:60] if end else "missing"), "%s: language server ended with %s" % (c["id"], end[0][1] if end else "nothing"), wit)
        for e in evs:
            if e[0] == "no_response":
                rep.violation("c19:no-response:%s" % e[2], "%s: no response to %s request #%d within 30 s" % (c["id"], e[2], e[1]), wit)
            if e[0] == "notif" and e[2] == "textDocument/publishDiagnostics":
                # validated against the text the version refers to: only the final text is known to be `text`
                pass
            if e[0] != "resp":
                continue
            st["responses"] += 1
            opi, kind, r = e[1], e[2], e[3]
            info = reqs.get(opi)
            if info is None:
                continue
            if r.get("error"):
                in_doc = info[0] != "other" or info[1]["in_doc"]
                if in_doc:
                    rep.violation("c19:error-response:%s" % kind, "%s: %s at %s answered with an error: %s" % (c["id"], kind, json.dumps(c["ops"][opi])[:120], json.dumps(r["error"])[:200]), wit)
                continue
            res = r.get("result")
            # collect every range in the result and validate it
            ranges = []

            def walk(x, key=""):
                if isinstance(x, dict):
                    if "start" in x and "end" in x and isinstance(x["start"], dict):
                        ranges.append((key, x))
                    for k, v in x.items():
                        if k == "targetUri" or k == "uri":
                            continue
                        walk(v, k)
                elif isinstance(x, list):
                    for v in x:
                        walk(v, key)
            same_doc = True
            if kind == "definition" and isinstance(res, list):
                same_doc = all((it.get("targetUri") or it.get("uri")) == uri for it in res if isinstance(it, dict))
            walk(res)
            for key, rg in ranges:
                if key in ("targetRange", "targetSelectionRange", "range") and kind == "definition" and not same_doc:
                    continue
                st["ranges"] += 1
                check_range(rep, rg, lines, "%s %s response %s" % (c["id"], kind, key), wit)
            if kind != "definition" or info[0] != "occ":
                continue
            o = info[1]
            items = res if isinstance(res, list) else ([res] if isinstance(res, dict) else [])
            origin_astral = astral(d.lines[o["line"]][:o["idx"]])
            if not items:
                if o["kind"] == "use" and o["scope"] is not None and o["name"] in ("x", "y", "z", "w"):
                    rep.violation("c19:columns-are-chars-not-utf16" if origin_astral else "c19:definition-missing", "%s: go-to-definition on the use of `%s` at line %d found nothing" % (c["id"], o["name"], o["line"]), wit)
                continue
            st["definitions_checked"] += 1
            it = items[0]
            tr = it.get("targetSelectionRange") or it.get("range")
            if not isinstance(tr, dict) or not same_doc:
                continue
            try:
                tl, ts, te = tr["start"]["line"], tr["start"]["character"], tr["end"]["character"]
                got_text = slice_u16(lines[tl], ts, te) if tr["start"]["line"] == tr["end"]["line"] and tl < len(lines) else None
            except Exception:
                continue
            target_astral = tl < len(lines) and astral(lines[tl])
            if got_text != o["name"]:
                rep.violation("c19:columns-are-chars-not-utf16" if (origin_astral or target_astral) else "c19:definition-text", "%s: go-to-definition on `%s` (line %d) points at %r (line %d, UTF-16 %d..%d of %r)" % (
                    c["id"], o["name"], o["line"], got_text, tl, ts, te, lines[tl][:80] if tl < len(lines) else None), wit)
                continue
            if o["kind"] != "use" or o["extra"] is None:
                continue
            u = uses.get(o["extra"])
            if not u or not u["executed"]:
                continue
            val = read.get(o["extra"])
            if val is None:
                continue
            st["uses_executed"] += 1
            m = re.match(r"(\w+)@(\w+)$", val)
            if not m or m.group(1) != o["name"]:
                continue
            run_scope = m.group(2)
            if run_scope != u["scope"]:
                rep.inconc("generator's static scope model disagrees with the run (not a server verdict)", {"id": c["id"], "use": o["extra"], "static": u["scope"], "run": run_scope})
                continue
            # the answer must be a binding occurrence of that name in that scope
            cands = [b for b in d.occ if b["kind"] == "bind" and b["name"] == o["name"] and b["scope"] == run_scope]
            hit = [b for b in cands if b["line"] == tl and u16(d.lines[b["line"]][:b["idx"]]) == ts]
            st["resolution_checked"] += 1
            if not hit:
                other = [b for b in d.occ if b["kind"] == "bind" and b["name"] == o["name"] and b["line"] == tl and u16(d.lines[b["line"]][:b["idx"]]) == ts]
                where = other[0]["scope"] if other else "no binding occurrence"
                rep.violation("c19:columns-are-chars-not-utf16" if (origin_astral or target_astral) else "c19:wrong-scope", "%s: the program reads `%s` from scope %s at line %d, go-to-definition leads to line %d (%s)" % (
                    c["id"], o["name"], run_scope, o["line"], tl, where), wit)
    rep.coverage = {
        "evaluations": st["responses"],
        "distinct_nontrivial": st["docs"],
        "rule": "evaluation = one request answered by the server with every range validated against the current text; distinct_nontrivial = documents (each with its own notification history and its own evaluation run)",
        "samples": [{"document": meta[cases[0]["id"]][2][:700], "ops_head": cases[0]["ops"][:3] if False else [o["op"] for o in cases[0]["ops"]][:12]}],
        "documents": st["docs"],
        "ranges_validated_utf16": st["ranges"],
        "definitions_with_target_text_checked": st["definitions_checked"],
        "definitions_checked_against_the_running_program": st["resolution_checked"],
        "executed_uses_observed": st["uses_executed"],
        "error_positions_checked": st["error_positions"],
        "crlf_documents": sum(1 for i in range(n) if i % 3 == 1),
    }
    rep.assumptions = ["requests are only issued for the final, parseable text of a history (the server documents that it answers from the last valid parse)",
                       "positions outside the document may be answered with an error; positions inside must not"]
    rep.finish(sanity_ok=st["resolution_checked"] > n and st["ranges"] > n * 5 and st["error_positions"] > n // 2, sanity_msg="too few resolution checks / ranges / error positions")


def replay(rep):
    w = rep["witness"]
    print(w.get("text", ""))
    return 1
