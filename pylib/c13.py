"""C13: frozen values stay alive as long as anything that can reach them is alive.
Monitor: svh heapgraph interprets random histories (build/freeze/load/own/globals/drop in any order,
also on other threads); after every operation every still-live object is re-observed and compared
with what was recorded at its creation (conservation); H2 poisons every dying arena."""
import json
import os
import random

import common
from common import NCPU, Report, log, seed

SYMS = ["v", "c", "s", "f", "d", "r", "n", "t", "c"]


def module_src(k, deps, with_owned, with_globals, scalar_only=()):
    """deps: list of (module name) to load from; from the deps in scalar_only only "scalar-looking" exports
    (a big integer, a string, a float) are loaded - values that live in the producer's arena all the same."""
    L = []
    names = []
    scal = []
    for j, dep in enumerate(deps):
        if dep in scalar_only:
            # k-dependent choice of which scalar-looking exports are loaded (often the big integer alone)
            which = [["n"], ["n"], ["t"], ["fl"], ["n", "fl"], ["n", "t", "fl"]][(k * 7 + j) % 6]
            L.append('load("%s.star", %s)' % (dep, ", ".join('%s%d="%s"' % (w, j, w) for w in which)))
            scal += ["%s%d" % (w, j) for w in which]
        else:
            L.append('load("%s.star", a%d="v", b%d="c", g%d="f", h%d="s")' % (dep, j, j, j, j))
            names.append(j)
    L.append("n = %d" % ((1 << 70) + k * (1 << 33) + k))
    L.append('t = "text-%d-" * 5' % k)
    L.append("fl = %d.5" % (k * 1000003))
    L.append('v = [%d, "s%d" * 3, {"k": %d}, (%d, [%d])]' % (k, k, k, k, k))
    parts = ["v", "n"] + ["a%d" % j for j in names] + ["b%d" % j for j in names] + scal
    if with_owned:
        parts += ["OW0"]
    if with_globals:
        parts += ["GV0"]
    L.append("c = [%s]" % ", ".join(parts))
    L.append("s = struct(own=v, deps=[%s])" % ", ".join("h%d" % j for j in names))
    L.append("def f():\n    return [v, %s]" % ", ".join(["c"] + ["g%d()" % j for j in names] + (["OW0"] if with_owned else []) + (["GV0"] if with_globals else [])))
    L.append("d = lambda x=%s: [x, %d]" % (("a%d" % names[0]) if names else "v", k))
    L.append("r = %s" % (("a%d" % names[-1]) if names else "v"))
    return "\n".join(L) + "\n"


def gen_history(rng, nops):
    ops = []
    fms, ofs, gls = [], [], []
    deps = {}  # fm -> set of objects it (transitively) needs (for the producer-first bias only)
    k = 0

    def fresh(prefix):
        nonlocal k
        k += 1
        return "%s%d" % (prefix, k)
    for _ in range(nops):
        r = rng.random()
        if r < 0.30 or not fms:
            name = fresh("m")
            d = rng.sample(fms, min(len(fms), rng.randint(0, 3)))
            ow = rng.choice(ofs) if ofs and rng.random() < 0.3 else None
            gl = rng.choice(gls) if gls and rng.random() < 0.3 else None
            so = [x for x in d if rng.random() < 0.35]
            op = {"op": "module", "name": name, "src": module_src(k, d, ow is not None, gl is not None, scalar_only=so), "loads": {"%s.star" % x: x for x in d}}
            if ow:
                op["owned"] = [["OW0", ow]]
            if gl:
                op["globals"] = gl
            ops.append(op)
            fms.append(name)
            deps[name] = set(d) | ({ow} if ow else set()) | ({gl} if gl else set())
        elif r < 0.45:
            name = fresh("o")
            src = rng.choice(fms)
            ops.append({"op": "owned", "name": name, "from": src, "sym": rng.choice(SYMS), "map": rng.random() < 0.3})
            ofs.append(name)
            deps[name] = {src}
        elif r < 0.50 and ofs:
            # forward a handle through a fresh frozen heap (pure forwarding heap or one with a wrapper allocation)
            name = fresh("o")
            src = rng.choice(ofs)
            ops.append({"op": "forward", "name": name, "from": src, "alloc": rng.random() < 0.4})
            ofs.append(name)
            deps[name] = {src}
        elif r < 0.56:
            name = fresh("g")
            srcs = rng.sample(fms, min(len(fms), rng.randint(1, 2)))
            op = {"op": "globals", "name": name, "from": [["GV%d" % i, m, rng.choice(["v", "c", "s"])] for i, m in enumerate(srcs)]}
            deps[name] = set(srcs)
            if ofs and rng.random() < 0.5:
                o = rng.choice(ofs)
                op["from_owned"] = [["GO0", o]]
                deps[name].add(o)
            ops.append(op)
            gls.append(name)
        elif r < 0.60 and gls:
            name = fresh("m")
            g = rng.choice(gls)
            ops.append({"op": "from_globals", "name": name, "from": g})
            # a module made from globals exports GV* and the builtins; it is not used as a load source for v/c/f/s
            deps[name] = {g}
            ofs_name = fresh("o")
            ops.append({"op": "owned", "name": ofs_name, "from": name, "sym": "GV0"})
            ofs.append(ofs_name)
            deps[ofs_name] = {name}
            ops.append({"op": "drop", "name": name})
        elif r < 0.66:
            d = rng.sample(fms, min(len(fms), rng.randint(1, 2)))
            ops.append({"op": "eval", "name": fresh("e"), "src": module_src(k, d, False, False) + "emit(c, f(), d(), s, r)\n", "loads": {"%s.star" % x: x for x in d}})
        else:
            live = fms + ofs + gls
            if not live:
                continue
            # producer-first bias: prefer dropping something that a live object depends on
            needed = [x for x in live if any(x in deps.get(y, ()) for y in live)]
            victim = rng.choice(needed) if needed and rng.random() < 0.7 else rng.choice(live)
            ops.append({"op": "drop", "name": victim, "thread": rng.random() < 0.25, "producer_first": victim in needed})
            for lst in (fms, ofs, gls):
                if victim in lst:
                    lst.remove(victim)
    return ops


def run(tier):
    rep = Report("C13", tier)
    s = seed()
    n = 1500 if tier == "quick" else common.tscale(40000)
    cases = []
    for i in range(n):
        rng = random.Random("%d/c13/%d" % (s, i))
        cases.append({"id": "h%d" % i, "ops": gen_history(rng, rng.choice([8, 15, 30, 50])), "final_rev": rng.random() < 0.5})
    flavors = [("dbg", n)] if tier == "quick" else [("dbg", n), ("rel", n), ("asan", 4000)]
    tot = {"arenas": 0, "poisoned": 0, "quarantined": 0, "checks": 0}
    nontrivial = 0
    done = 0
    op_errs = 0
    samples = []
    for flavor, nf in flavors:
        try:
            svh = os.path.join(common.build(flavor), "svh")
        except common.BuildError as e:
            if flavor == "dbg":
                raise
            rep.inconc("flavor %s unavailable" % flavor, str(e)[-300:])
            continue
        asan = flavor == "asan"
        opts = {"poison": "1", "quarantine": "0" if asan else str(512 << 20)}
        env = {"ASAN_OPTIONS": "abort_on_error=1:detect_leaks=0"} if asan else None
        batch = common.run_cases(svh, "heapgraph", cases[:nf], "c13_" + flavor, opts=opts, shards=NCPU, timeout=3000, env_extra=env, asan_like=asan, mem_gb=12)
        for cr in batch.crashes:
            rep.violation("c13:" + common.crash_signature(cr), "[%s] crash in history %s: %s" % (flavor, cr["id"], ((cr.get("confirm") or {}).get("stderr") or "")[-400:]),
                          {"flavor": flavor, "case": cr["case"], "opts": opts, "crash": cr.get("confirm")})
        for inc in batch.inconclusive:
            rep.inconc(inc["why"], inc.get("id"))
        for c in cases[:nf]:
            evs = batch.events.get(c["id"])
            if evs is None:
                continue
            done += 1
            for e in evs:
                if e[0] == "mismatch":
                    kinds = [o["op"] for o in c["ops"]]
                    rep.violation("c13:mismatch:after-%s" % e[3], "[%s] history %s: object %s changed after op #%s (%s): recorded %s now %s" % (
                        flavor, c["id"], e[1], e[2], e[3], json.dumps(e[4])[:200], json.dumps(e[5])[:200]), {"flavor": flavor, "case": c, "opts": opts})
                    break
                if e[0] == "panic" and common.is_oom_text(e[1]):
                    rep.inconc("allocation failure", c["id"])
                    break
                if e[0] == "panic":
                    rep.violation("c13:panic:" + e[1][:80], "[%s] panic in history %s: %s" % (flavor, c["id"], e[1]), {"flavor": flavor, "case": c, "opts": opts})
                    break
                if e[0] == "op_err":
                    op_errs += 1
                    if op_errs <= 3:
                        rep.inconc("history op failed (generator/harness)", {"id": c["id"], "err": e})
                if e[0] == "ctr":
                    for k in tot:
                        tot[k] += e[1].get(k, 0)
                    if e[1].get("arenas", 0) > 0 and any(o.get("producer_first") for o in c["ops"]):
                        nontrivial += 1
        if len(samples) < 2:
            samples.append({"history": [{k: v for k, v in o.items() if k != "src"} for o in cases[0]["ops"]][:12], "module_source_example": cases[0]["ops"][0].get("src")})
    rep.coverage = {
        "evaluations": done,
        "distinct_nontrivial": nontrivial,
        "rule": "evaluation = one history (sequence of module/owned/globals/eval/drop operations) executed with a full conservation check after every operation; "
                "non-trivial = the history dropped at least one object that another live object still depended on (producer-first drop) and arenas died (were poisoned) during it",
        "samples": samples,
        "conservation_checks": tot["checks"],
        "arenas_poisoned": tot["arenas"],
        "bytes_poisoned": tot["poisoned"],
        "bytes_quarantined": tot["quarantined"],
        "history_ops_that_failed": op_errs,
        "flavors": [f for f, _ in flavors],
    }
    rep.assumptions = ["the encoding recorded right after an object's creation is its correct content"]
    rep.finish(sanity_ok=tot["arenas"] > n // 2 and tot["checks"] > n and op_errs < max(10, done // 50), sanity_msg="no arenas died / no checks made / too many harness op errors (%d)" % op_errs)


def replay(rep):
    w = rep["witness"]
    svh = os.path.join(common.build(w.get("flavor", "dbg")), "svh")
    batch = common.run_cases(svh, "heapgraph", [w["case"]], "c13_replay", opts=w.get("opts", {}), shards=1)
    if batch.crashes:
        print("crash:", json.dumps(batch.crashes[0].get("confirm"))[:1500])
        return 1
    bad = [e for e in batch.events.get(w["case"]["id"], []) if e[0] in ("mismatch", "panic")]
    print(json.dumps(bad)[:2000])
    return 1 if bad else 0
