"""C03: garbage collection is invisible and never loses or corrupts a live value.
Monitor: the same program under different GC schedules (H1) must give identical sharing-sensitive
transcripts; the from-space of every collection is poisoned and quarantined (H2), so a missed root
crashes or produces an encoding that cannot match."""
import json
import os
import random

import common
import gen_full
from common import NCPU, Report, log, seed


def split_toplevel(lines, nparts, rng):
    """Split a program (list of (indent, text)) into nparts chunks at top-level statement boundaries."""
    starts = [i for i, (ind, t) in enumerate(lines) if ind == 0 and not t.startswith(("elif", "else"))]
    if nparts <= 1 or len(starts) < nparts * 2:
        return [lines]
    cuts = sorted(rng.sample(starts[2:], nparts - 1))
    out, prev = [], 0
    for c in cuts:
        out.append(lines[prev:c])
        prev = c
    out.append(lines[prev:])
    return [p for p in out if p]


def make_cases(i, s, tier):
    rng = random.Random("%d/c03/%d" % (s, i))
    lines = gen_full.gen_program(rng, heap_heavy=True, max_stmts=rng.choice([30, 60, 120]), inject_fail=0.15)
    nparts = rng.choice([1, 1, 2, 3])
    parts = split_toplevel(lines, nparts, rng)
    srcs = [gen_full.render(p) for p in parts]
    unit = {"file": "h.star", "src": srcs[0]}
    # embedder-held roots: variables set before / between evaluations, extra_value
    unit["presets"] = [["PRE", ["l", "i1", ["l", "sx"], ["d", ["sk", ["l", "i5"]]]]]]
    if rng.random() < 0.5:
        unit["extra_value"] = ["l", "sextra", ["l", "i1", "i2"]]
    evals = []
    for j, sp in enumerate(srcs[1:]):
        e = {"src": "emit(PRE)\n" + sp + "emit(PRE)\n"}
        if rng.random() < 0.5:
            e["set_after"] = [["BETWEEN%d" % j, ["d", ["sa", ["l", "i%d" % j]]]]]
        evals.append(e)
    evals.append({"src": "emit(PRE)\nPRE.append(len(PRE))\nemit(PRE)\n"})
    unit["evals"] = evals
    lib = {"file": "lib.star", "freeze": True,
           "src": "FROZEN_L = [1, [2, 3], {\"k\": (4, [5])}]\ndef frozen_f(x):\n    return [x, FROZEN_L]\nFROZEN_S = struct(a=FROZEN_L, f=frozen_f)\n"}
    use_lib = rng.random() < 0.5
    if use_lib:
        unit["src"] = 'load("lib.star", "FROZEN_L", "frozen_f", "FROZEN_S")\nFL = [FROZEN_L, frozen_f(1), FROZEN_S]\nemit(FL)\n' + unit["src"]
    scheds = [("never", {"disable_gc": True}), ("default", {}), ("k1", {"gc_every": 1}), ("k2", {"gc_every": 2}), ("k3", {"gc_every": 3}),
              ("k7", {"gc_every": 7}), ("kr", {"gc_every": rng.randint(4, 40)})]
    if tier == "quick":
        scheds = scheds[:3] + [scheds[rng.randint(3, 5)], scheds[6]]
    cases = []
    reuse = rng.random() < 0.3
    for name, cfg in scheds:
        c = dict(cfg)
        c.update({"dialect": "internal", "sharing": True, "reuse_eval": reuse})
        cases.append({"id": "p%d/%s" % (i, name), "cfg": c, "units": ([lib] if use_lib else []) + [unit]})
    return cases, "".join(srcs)


def strip(evs):
    out = []
    ctr = None
    for e in evs:
        if e[0] == "ctr":
            ctr = e[1]
        elif e[0] in ("r", "call"):
            if e[3] == "err":
                out.append([e[0], e[1], e[2], "err", e[4].get("kind"), e[4].get("msg")])
            else:
                out.append(e[:5])
        else:
            out.append(e)
    return out, ctr


def run(tier):
    rep = Report("C03", tier)
    s = seed()
    n = 1200 if tier == "quick" else common.tscale(8000)
    cases = []
    srcs = {}
    for i in range(n):
        cs, src = make_cases(i, s, tier)
        cases.extend(cs)
        srcs[i] = src
    flavors = [("dbg", n)] if tier == "quick" else [("dbg", n), ("rel", n), ("asan", 1200)]
    totals = {"collections": 0, "safepoints": 0, "poisoned": 0, "quarantined": 0, "arenas": 0}
    compared = 0
    distinct = set()
    forced_without_gc = 0
    forced = 0
    samples = []
    for flavor, nf in flavors:
        try:
            svh = os.path.join(common.build(flavor), "svh")
        except common.BuildError as e:
            if flavor == "dbg":
                raise
            rep.inconc("flavor %s unavailable" % flavor, str(e)[-300:])
            continue
        fcases = [c for c in cases if int(c["id"].split("/")[0][1:]) < nf]
        asan = flavor == "asan"
        opts = {"poison": "1", "quarantine": "0" if asan else str(256 << 20)}
        env = {"ASAN_OPTIONS": "abort_on_error=1:detect_leaks=0"} if asan else None
        batch = common.run_cases(svh, "run", fcases, "c03_" + flavor, opts=opts, shards=NCPU, timeout=3000, env_extra=env, asan_like=asan, mem_gb=12)
        for cr in batch.crashes:
            pid = cr["id"]
            rep.violation("c03:" + common.crash_signature(cr), "[%s] crash under GC schedule %s: %s" % (flavor, pid, ((cr.get("confirm") or {}).get("stderr") or "")[-400:]),
                          {"flavor": flavor, "case": cr["case"], "opts": opts, "crash": cr.get("confirm")})
        for inc in batch.inconclusive:
            rep.inconc(inc["why"], inc.get("id"))
        by_prog = {}
        for c in fcases:
            if c["id"] in batch.events:
                p, sched = c["id"].split("/")
                by_prog.setdefault(p, {})[sched] = (c, batch.events[c["id"]])
        for p, runs in by_prog.items():
            if "never" not in runs:
                continue
            ref, _ = strip(runs["never"][1])
            for sched, (c, evs) in runs.items():
                got, ctr = strip(evs)
                if ctr:
                    for k in totals:
                        totals[k] += ctr.get(k, 0)
                    if sched.startswith("k"):
                        forced += 1
                        if ctr.get("collections", 0) == 0 and ctr.get("safepoints", 0) > 10:
                            forced_without_gc += 1
                pan = [e for e in got if e[0] == "panic"]
                if pan and common.is_oom_text(pan[0][1]):
                    rep.inconc("allocation failure", c["id"])
                    continue
                if pan:
                    rep.violation("c03:panic:" + pan[0][1][:80], "[%s] panic under schedule %s: %s" % (flavor, c["id"], pan[0][1]), {"flavor": flavor, "case": c, "opts": opts})
                    continue
                if sched == "never":
                    continue
                compared += 1
                if got != ref:
                    k = 0
                    while k < min(len(got), len(ref)) and got[k] == ref[k]:
                        k += 1
                    a = json.dumps(got[k])[:300] if k < len(got) else "<end>"
                    b = json.dumps(ref[k])[:300] if k < len(ref) else "<end>"
                    rep.violation("c03:transcript:%s" % _focus(a, b), "[%s] %s: transcript differs from the no-GC run at event %d: %s  vs  %s" % (flavor, c["id"], k, a, b),
                                  {"flavor": flavor, "case": c, "ref_case": runs["never"][0], "opts": opts, "event_index": k})
                elif len(ref) > 10:
                    distinct.add(hash(json.dumps(ref[:40])))
            if len(samples) < 2 and len(ref) > 30 and flavor == "dbg":
                samples.append({"program": p, "source_head": srcs[int(p[1:])][:1200], "events": len(ref), "schedules": sorted(runs)})
    rep.coverage = {
        "evaluations": compared,
        "distinct_nontrivial": len(distinct),
        "rule": "evaluation = one (program, GC schedule) execution whose sharing-sensitive transcript was compared with the no-GC execution of the same program; "
                "distinct_nontrivial = distinct reference transcripts with more than 10 events",
        "samples": samples,
        "programs": n,
        "collections_performed": totals["collections"],
        "safepoints_seen": totals["safepoints"],
        "arenas_poisoned": totals["arenas"],
        "bytes_poisoned": totals["poisoned"],
        "bytes_quarantined": totals["quarantined"],
        "forced_schedule_runs": forced,
        "forced_schedule_runs_without_any_collection": forced_without_gc,
        "flavors": [f for f, _ in flavors],
    }
    rep.assumptions = ["collections happen only at the safepoints the evaluator offers (H1 forces a collection there, it cannot create new safepoints)",
                       "identity of immutable values is not compared (not observable in the language)"]
    rep.finish(sanity_ok=totals["collections"] > n and totals["poisoned"] > 0 and compared > n, sanity_msg="forced-GC runs performed no collections or nothing was poisoned")


def _focus(a, b):
    import re
    return re.sub(r"[0-9]+", "N", a)[:50]


def replay(rep):
    w = rep["witness"]
    svh = os.path.join(common.build(w.get("flavor", "dbg")), "svh")
    cs = [w["case"]] + ([w["ref_case"]] if "ref_case" in w else [])
    batch = common.run_cases(svh, "run", cs, "c03_replay", opts=w.get("opts", {}), shards=1)
    if batch.crashes:
        print("crash:", batch.crashes[0].get("confirm"))
        return 1
    a, _ = strip(batch.events.get(cs[0]["id"], []))
    if len(cs) > 1:
        b, _ = strip(batch.events.get(cs[1]["id"], []))
        print("same" if a == b else "DIFFERENT")
        return 0 if a == b else 1
    print(json.dumps(a)[:2000])
    return 0
