"""C01: evaluation agrees with the reference semantics (differential vs CPython) on the shared core.
Oracle: ref_py.run_python on the identical text; compared: the sequence of emitted canonical values,
and the final outcome (ok, or failure point = events before failure + line of innermost frame + coarse class)."""
import json
import os
import random
import re
from concurrent.futures import ProcessPoolExecutor

import common
import gen_core
import ref_py
from common import NCPU, Report, log, seed


def star_class(err):
    m = err.get("msg", "")
    k = err.get("kind")
    if k == "Fail" or m.startswith("fail:"):
        return "fail"
    ml = m.lower()
    if "division by zero" in ml or "modulo by zero" in ml or "divide by zero" in ml:
        return "zero"
    if "out of bound" in ml:
        return "index"
    if "not found in" in ml and "key" in ml or ml.startswith("key `") or "key not found" in ml:
        return "key"
    if "referenced before assignment" in ml or ("variable" in ml and "not found" in ml):
        return "unbound"
    return "tv"


def py_class(c):
    if c in ("type", "value"):
        return "tv"
    return c


def star_outcome(events, file):
    """Split an svh transcript into (emit/print events, outcome) for the main item of `file`."""
    evs = []
    out = None
    for e in events:
        if e[0] in ("e", "p"):
            evs.append(e)
        elif e[0] == "r" and e[2] == 0:
            if e[3] == "ok":
                out = ["ok"]
            elif e[3] == "err":
                err = e[4]
                line = (err["span"]["bl"] + 1) if err.get("span") else None
                out = ["err", star_class(err), line, len(evs), err.get("msg", "")[:120]]
            else:
                out = ["syntax", None, json.dumps(e[4])[:200]]
        elif e[0] == "panic":
            out = ["panic", e[1]]
    return evs, out


class _Timeout(BaseException):
    pass


def _alarm(signum, frame):
    raise _Timeout()


def _py_init():
    import resource
    import signal
    resource.setrlimit(resource.RLIMIT_AS, (3 << 30, 3 << 30))
    signal.signal(signal.SIGALRM, _alarm)


def _py_job(args):
    import signal
    cid, src = args
    signal.alarm(20)
    try:
        return cid, ref_py.run_python(src)
    except BaseException as e:  # timeout, MemoryError etc.: the reference gave no answer
        return cid, {"events": [], "outcome": ["pyfail", repr(e)]}
    finally:
        signal.alarm(0)


def gen_cases(n, s, tier):
    cases = []
    srcs = {}
    for i in range(n):
        rng = random.Random("%d/c01/%d" % (s, i))
        lines = gen_core.gen_program(rng, max_stmts=rng.choice([15, 30, 60]), inject_fail=0.35)
        for form, ml in (("m", True), ("f", False)):
            cid = "p%d%s" % (i, form)
            src = gen_core.render(lines, module_level=ml)
            srcs[cid] = src
            cases.append({"id": cid, "cfg": {"dialect": "extended"}, "units": [{"file": "p.star", "src": src}]})
    # definitely-assigned analysis: locals assigned on some paths only (one call per program)
    for i in range(n // 4):
        rng = random.Random("%d/c01u/%d" % (s, i))
        cid = "u%d" % i
        src = gen_core.gen_unassigned(rng)
        srcs[cid] = src
        cases.append({"id": cid, "cfg": {"dialect": "extended"}, "units": [{"file": "p.star", "src": src}]})
    return cases, srcs


def grid_leg(rep, svh, flavor, st):
    """Small-scope exhaustive grid over builtin functions and methods (gen_grid): CPython evaluates each expression,
    starlark-rust evaluates emit(attempt(lambda: <expr>)); ok/err must agree and ok values must be equal."""
    import gen_grid
    ex = sorted(set(gen_grid.exprs()))
    nch = 32
    chunks = [ex[i::nch] for i in range(nch)]
    cases = [{"id": "g%d" % i, "cfg": {"dialect": "extended"}, "units": [{"file": "g.star", "src": "".join("emit(attempt(lambda: %s))\n" % e for e in ch)}]} for i, ch in enumerate(chunks)]
    batch = common.run_cases(svh, "run", cases, "c01g_" + flavor, shards=NCPU, timeout=3000)
    for cr in batch.crashes:
        rep.violation(common.crash_signature(cr), "[%s] runner crashed on grid chunk %s" % (flavor, cr["id"]), {"flavor": flavor, "crash": cr.get("confirm")})
    for inc in batch.inconclusive:
        rep.inconc(inc["why"], inc.get("id"))
    for i, ch in enumerate(chunks):
        evs = batch.events.get("g%d" % i)
        if evs is None:
            continue
        got = [e[1] for e in evs if e[0] == "e"]
        bad = [e for e in evs if e[0] == "r" and e[3] != "ok"]
        if bad or len(got) != len(ch):
            rep.violation("c01:grid-module-failed", "[%s] grid chunk %d: %d of %d results; %s" % (flavor, i, len(got), len(ch), json.dumps(bad)[:300]), {"flavor": flavor, "chunk": i})
            continue
        for e, g in zip(ch, got):
            try:
                p = ["ok", ref_py.canon(eval(e, {"__builtins__": __builtins__}))]
            except Exception as x:  # noqa
                p = ["err", type(x).__name__]
            st["grid"] += 1
            sok = isinstance(g, list) and len(g) == 3 and g[1] == "sok"
            same = (p[0] == "ok" and sok and p[1] == g[2]) or (p[0] == "err" and not sok)
            if same:
                st["grid_ok" if sok else "grid_err"] += 1
                continue
            shape = re.sub(r"-?[0-9]+", "N", re.sub(r'"[^"]*"', "S", e))[:60]
            rep.violation("c01:grid:%s:%s" % ("value" if (p[0] == "ok" and sok) else "ok-vs-err", shape),
                          "[%s] %s  ->  starlark %s, python %s" % (flavor, e, json.dumps(g)[:200], json.dumps(p)[:200]), {"flavor": flavor, "expr": e, "starlark": g, "python": p})


def compare(cid, src, star_events, py):
    """Returns None if they agree, else (signature, description)."""
    evs, out = star_outcome(star_events, "p.star")
    pevs, pout = py["events"], py["outcome"]
    if out is None:
        return ("no-outcome", "starlark produced no outcome record")
    if out[0] == "panic":
        if common.is_oom_text(out[1]):
            return ("generator", "allocation failure: %s" % out[1])
        return ("panic", "starlark panicked: %s" % out[1])
    if pout[0] == "syntax" or pout[0] == "pyfail":
        return None if out[0] == "syntax" else ("generator", "reference rejected program (%s) but starlark ran it" % (pout,))
    if out[0] == "syntax":
        return ("syntax", "starlark rejects a program CPython accepts: %s" % out[2])
    n = min(len(evs), len(pevs))
    for i in range(n):
        if evs[i] != pevs[i]:
            return ("event", "event #%d differs: starlark %s vs python %s" % (i, json.dumps(evs[i])[:300], json.dumps(pevs[i])[:300]))
    if len(evs) != len(pevs):
        return ("event-count", "starlark emitted %d events, python %d (outcomes %s vs %s)" % (len(evs), len(pevs), out, pout))
    if out[0] != pout[0]:
        return ("outcome", "starlark outcome %s vs python %s" % (out, pout))
    if out[0] == "err":
        if out[2] != pout[2]:
            return ("err-line", "failure line differs: starlark %s vs python %s" % (out, pout))
        sc, pc = out[1], py_class(pout[1])
        if sc != pc and not (sc == "tv" and pc in ("tv",)):
            # only the confident classes are compared
            if sc in ("zero", "fail", "unbound") or pc in ("zero", "fail", "unbound"):
                return ("err-class", "failure class differs: starlark %s vs python %s" % (out, pout))
    return None


def run(tier):
    rep = Report("C01", tier)
    s = seed()
    n = 2500 if tier == "quick" else common.tscale(60000)
    flavors = ["dbg"] if tier == "quick" else ["dbg", "rel"]
    cases, srcs = gen_cases(n, s, tier)
    log("[C01] %d programs x 2 forms" % n)
    with ProcessPoolExecutor(max_workers=NCPU, initializer=_py_init) as ex:
        py = dict(ex.map(_py_job, list(srcs.items()), chunksize=64))
    # programs for which the reference gave no answer (timeout / transcript too large) are not comparable
    nopy = [c["id"] for c in cases if py[c["id"]]["outcome"][0] == "pyfail"]
    cases = [c for c in cases if py[c["id"]]["outcome"][0] != "pyfail"]
    stats = {"ok": 0, "err": 0, "agree": 0, "skipped": len(nopy)}
    classes = {}
    distinct = set()
    samples = []
    gst = {"grid": 0, "grid_ok": 0, "grid_err": 0}
    for flavor in flavors:
        svh = os.path.join(common.build(flavor), "svh")
        grid_leg(rep, svh, flavor, gst)
        batch = common.run_cases(svh, "run", cases, "c01_" + flavor, shards=NCPU)
        for cr in batch.crashes:
            rep.violation(common.crash_signature(cr), "runner crashed on %s: %s" % (cr["id"], (cr.get("confirm") or {}).get("stderr", "")[-300:]),
                          {"case": cr["case"], "flavor": flavor, "crash": cr.get("confirm")})
        for inc in batch.inconclusive:
            rep.inconc(inc["why"], inc.get("id"))
        for c in cases:
            cid = c["id"]
            if cid not in batch.events:
                continue
            p = py[cid]
            d = compare(cid, srcs[cid], batch.events[cid], p)
            if d is None:
                stats["agree"] += 1
                oc = p["outcome"][0]
                if oc == "ok":
                    stats["ok"] += 1
                elif oc == "err":
                    stats["err"] += 1
                    classes[p["outcome"][1]] = classes.get(p["outcome"][1], 0) + 1
                else:
                    stats["skipped"] += 1
                if len(p["events"]) >= 5:
                    distinct.add(hash(json.dumps(p["events"][:50])))
                if len(samples) < 3 and oc == "err" and flavor == flavors[0]:
                    samples.append({"id": cid, "src": srcs[cid][:1500], "outcome": p["outcome"], "n_events": len(p["events"])})
            else:
                sig, what = d
                if sig == "generator":
                    rep.inconc("generator produced a program the reference rejects", {"id": cid, "what": what})
                    continue
                # signature: kind + the offending source line, so the same construct is reported once
                line = ""
                m = re.search(r"line differs|event #", what)
                rep.violation("c01:%s:%s" % (sig, _focus(srcs[cid], p, batch.events[cid])), "[%s/%s] %s" % (flavor, cid, what),
                              {"flavor": flavor, "case": c, "python": p["outcome"], "python_events_tail": p["events"][-3:], "what": what})
    rep.coverage = {
        "evaluations": stats["agree"] + gst["grid"] + len(rep.violations),
        "distinct_nontrivial": len(distinct),
        "rule": "evaluation = one program text (module-level or in-function form) executed by starlark-rust and by CPython 3 with transcripts compared; "
                "distinct_nontrivial = distinct transcripts (first 50 events) with at least 5 emitted values",
        "samples": samples,
        "programs": n,
        "forms": 2,
        "flavors": flavors,
        "agree_ok": stats["ok"],
        "agree_failing_programs": stats["err"],
        "failure_classes_seen": classes,
        "reference_rejected": stats["skipped"],
        "api_grid_expressions_compared": gst["grid"],
        "api_grid_agree_ok": gst["grid_ok"],
        "api_grid_agree_error": gst["grid_err"],
    }
    rep.assumptions = ["CPython 3 (this image's python3) is the reference interpreter for the shared core",
                       "generator stays inside the shared subset (DESIGN.md C01 exclusion list)"]
    rep.finish(sanity_ok=stats["agree"] > n and gst["grid_ok"] > 10000 and gst["grid_err"] > 1000, sanity_msg="too few comparable programs / grid expressions")


def _focus(src, p, star_events):
    """A stable-ish key for a divergence: the text of the python failure line or of the last emit line."""
    lines = src.splitlines()
    o = p["outcome"]
    if o[0] == "err" and o[2] and o[2] <= len(lines):
        return re.sub(r"[0-9]+", "N", lines[o[2] - 1].strip())[:80]
    return "events"


def replay(rep):
    w = rep["witness"]
    svh = os.path.join(common.build(w.get("flavor", "dbg")), "svh")
    c = w["case"]
    batch = common.run_cases(svh, "run", [c], "c01_replay", shards=1)
    src = c["units"][0]["src"]
    p = ref_py.run_python(src)
    print(src)
    print("starlark:", json.dumps(batch.events.get(c["id"]))[:3000])
    print("python  :", json.dumps(p)[:3000])
    d = compare(c["id"], src, batch.events.get(c["id"], []), p)
    print("verdict :", d)
    return 1 if d else 0
