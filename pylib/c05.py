"""C05: parsing is total: any input yields an AST or a located error, never a crash; spans are well-formed; dialects are monotone.
Monitors (in svh parse): catch_unwind around AstModule::parse for every (input, dialect); on Ok a recursive walk over the
public AST asserting span containment / char boundaries / identifier and string-literal spans; on Err assertions on
message and span (and that rendering the error does not panic); monotonicity: for dialects D <= D' an input accepted
under D is accepted under D' with the same tree and spans."""
import json
import os
import random
import re

import common
import gen_core
import gen_full
import gen_tokens
from common import NCPU, Report, log, seed

BOOLS = ["def", "lambda", "load", "kwonly", "posonly", "reexport", "toplevel", "fstrings"]
TYPES = ["disable", "parse", "enable"]


def random_dialect(rng):
    d = {b: rng.random() < 0.5 for b in BOOLS}
    d["types"] = rng.choice(TYPES)
    return d


def superset(rng, d):
    e = dict(d)
    for b in BOOLS:
        if not e[b] and rng.random() < 0.5:
            e[b] = True
    e["types"] = TYPES[rng.randint(TYPES.index(d["types"]), 2)]
    return e


def leq(a, b):
    return all((not a[x]) or b[x] for x in BOOLS) and TYPES.index(a["types"]) <= TYPES.index(b["types"])


FULL = dict({b: True for b in BOOLS}, types="enable")
MIN = dict({b: False for b in BOOLS}, types="disable")


def inputs(tier, s):
    out = []
    n = 30000 if tier == "quick" else common.tscale(400000)
    valid = []
    for i in range(300 if tier == "quick" else 3000):
        r = random.Random("%d/c05v/%d" % (s, i))
        valid.append(gen_full.render(gen_full.gen_program(r, max_stmts=r.choice([6, 15, 30]), inject_fail=0.2)))
    tdir = "/repo/starlark/testcases"
    if os.path.isdir(tdir):
        for root, _, files in os.walk(tdir):
            for f in sorted(files)[:100]:
                try:
                    valid.append(open(os.path.join(root, f), encoding="utf-8").read()[:20000])
                except Exception:
                    pass
    for t in gen_tokens.CORNERS + gen_tokens.STATEMENT_FORMS:
        out.append(("corner", t))
    for i in range(n):
        r = random.Random("%d/c05/%d" % (s, i))
        k = i % 8
        if k == 0:
            out.append(("soup", gen_tokens.soup(r, r.choice([3, 10, 40, 200]))))
        elif k == 1:
            alphabet = "ab x1_\"'\\\n\t ()[]{}:,;.=+-*/%&|^~<>!#\r0159efé日\U0001F600"
            out.append(("chars", "".join(r.choice(alphabet) for _ in range(r.choice([2, 8, 30, 120])))))
        elif k in (2, 3, 4):
            base = r.choice(valid)
            t = base
            for _ in range(r.choice([1, 1, 2, 3])):
                t = gen_tokens.mutate(r, t)
            out.append(("mutated-valid", t))
        elif k == 5:
            base = r.choice(gen_tokens.CORNERS + gen_tokens.STATEMENT_FORMS)
            out.append(("mutated-corner", gen_tokens.mutate(r, base) if r.random() < 0.7 else base + r.choice(gen_tokens.CORNERS)))
        elif k == 6:
            base = r.choice(valid)
            # byte-level damage kept valid UTF-8: delete / duplicate / splice a character range, change indentation
            a = r.randrange(len(base) + 1)
            b = min(len(base), a + r.choice([1, 2, 5, 30]))
            t = r.choice([base[:a] + base[b:], base[:b] + base[a:], base[:a] + r.choice([" ", "    ", "\t", "\n", "\\", "\"", "'", "#"]) + base[a:], base[:a], base[a:]])
            out.append(("damaged-valid", t))
        else:
            out.append(("valid", r.choice(valid)))
    for i in range(n // 5):
        r = random.Random("%d/c05s/%d" % (s, i))
        out.append(("string-literal", gen_tokens.string_literal_input(r)))
    if tier == "thorough":
        for size in (8192, 32768, 65000):
            r = random.Random("%d/c05big/%d" % (s, size))
            big = ""
            while len(big.encode("utf-8")) < size:
                big += r.choice(valid)
            out.append(("big", big[:size]))
    return out


FZ_BOOLS = ["def", "lambda", "load", "kwonly", "posonly", "reexport", "toplevel", "fstrings"]


def fz_dialect(bits):
    d = {b: bool(bits & (1 << i)) for i, b in enumerate(FZ_BOOLS)}
    d["types"] = TYPES[(bits >> 8) % 3]
    return d


def fz_decode(data):
    """The dialects and the source text a fuzz input stands for (same decoding as harness/fz/fuzz/fuzz_targets/c05.rs)."""
    if len(data) < 4:
        return None
    try:
        src = data[4:].decode("utf-8")
    except UnicodeDecodeError:
        return None
    d1 = data[0] | ((data[1] % 3) << 8)
    extra = data[2] | ((data[3] % 3) << 8)
    d2 = ((d1 & 0xff) | (extra & 0xff)) | (max((d1 >> 8) % 3, (extra >> 8) % 3) << 8)
    return [fz_dialect(x) for x in (0, d1, d2, 0xff | (2 << 8))], src


def fuzz_leg(rep, s, svh, dial_of, judge, st):
    """Coverage-guided leg (thorough): libFuzzer drives the same oracle, compiled into the fuzz target; every artifact it
    keeps is re-judged by the ordinary runner, which alone decides (fuzzer timeouts / OOM are inconclusive)."""
    import shutil
    import subprocess
    import time
    fz = os.path.join(common.HARNESS, "fz")
    env = dict(common.BASE_ENV)
    env["RUSTFLAGS"] = "--cfg starlark_verif"
    env["CARGO_TARGET_DIR"] = os.path.join(common.TARGET, "fuzz")
    lock = os.path.join(fz, "fuzz", "Cargo.lock")
    if not os.path.exists(lock):
        shutil.copy(os.path.join(common.HARNESS, "Cargo.lock"), lock)
    t0 = time.time()
    p = subprocess.run(["cargo", "+nightly", "fuzz", "build", "c05"], cwd=fz, env=env, stdout=subprocess.PIPE, stderr=subprocess.STDOUT, text=True)
    if p.returncode != 0:
        rep.inconc("fuzz flavor unavailable (cargo fuzz build failed)", p.stdout[-400:])
        return
    log("[build] fuzz ok in %.1fs" % (time.time() - t0))
    wd = common.workdir("c05_fuzz")
    corpus, art = os.path.join(wd, "corpus"), os.path.join(wd, "art")
    os.makedirs(corpus)
    os.makedirs(art)
    rng = random.Random("%d/c05fz" % s)
    for i, t in enumerate(gen_tokens.CORNERS + gen_tokens.STATEMENT_FORMS + [gen_tokens.string_literal_input(rng) for _ in range(300)]):
        b = t.encode("utf-8")[:3000]
        with open(os.path.join(corpus, "s%04d" % i), "wb") as f:
            f.write(bytes([rng.randrange(256), rng.randrange(3), rng.randrange(256), rng.randrange(3)]) + b)
    seconds = int(os.environ.get("VERIF_FUZZ_SECONDS", "900"))
    cmd = ["cargo", "+nightly", "fuzz", "run", "c05", corpus, "--", "-max_total_time=%d" % seconds, "-fork=%d" % NCPU, "-ignore_crashes=1", "-ignore_timeouts=1", "-ignore_ooms=1",
           "-timeout=10", "-rss_limit_mb=3000", "-max_len=4096", "-seed=%d" % (s + 1), "-artifact_prefix=" + art + "/", "-print_final_stats=1"]
    try:
        p = subprocess.run(cmd, cwd=fz, env=env, stdout=subprocess.PIPE, stderr=subprocess.STDOUT, text=True, timeout=seconds + 1800)
        outp = p.stdout
    except subprocess.TimeoutExpired as e:
        outp = (e.stdout or b"").decode("utf-8", "replace") if isinstance(e.stdout, bytes) else (e.stdout or "")
        rep.inconc("fuzzer did not stop in time", None)
    execs = 0
    cov = 0
    for line in outp.splitlines():
        m = re.search(r"#(\d+): cov: (\d+)", line)
        if m:
            execs, cov = max(execs, int(m.group(1))), max(cov, int(m.group(2)))
    arts = sorted(os.listdir(art))
    st["fuzz"] = {"seconds": seconds, "executions_reported": execs, "edges_covered": cov, "corpus_files_at_end": len(os.listdir(corpus)), "artifacts": len(arts)}
    cases2 = []
    for name in arts:
        data = open(os.path.join(art, name), "rb").read()
        dec = fz_decode(data)
        if dec is None or not name.startswith("crash-"):
            rep.inconc("fuzzer artifact %s (not a crash of the oracle, or undecodable)" % name.split("-")[0], name)
            continue
        ds, src = dec
        cid = "fz_" + name[:24]
        dial_of[cid] = ds
        cases2.append({"id": cid, "src": src, "dialects": ds, "sexp": False, "roundtrip": False})
    if cases2:
        b2 = common.run_cases(svh, "parse", cases2, "c05_fzjudge", shards=min(NCPU, len(cases2)), timeout=3000, per_case_timeout=60)
        for cr in b2.crashes:
            rep.violation("c05:" + common.crash_signature(cr), "[fuzz] parser crashed (process died) on %r" % (cr["case"]["src"][:200]), {"flavor": "dbg", "case": cr["case"], "crash": cr.get("confirm")})
        before = len(rep.violations) + len(rep.known)
        for c in cases2:
            evs = b2.events.get(c["id"])
            if evs is not None:
                judge(c, "fuzz-artifact", c["src"], evs, "dbg")
        if len(rep.violations) + len(rep.known) == before and not b2.crashes:
            rep.inconc("fuzzer artifacts not reproduced by the ordinary runner", [c["id"] for c in cases2][:5])


def run(tier):
    rep = Report("C05", tier)
    s = seed()
    ins = inputs(tier, s)
    cases = []
    dial_of = {}
    seen_dialects = set()
    for i, (kind, t) in enumerate(ins):
        r = random.Random("%d/c05d/%d" % (s, i))
        d1 = random_dialect(r)
        d2 = superset(r, d1)
        d3 = random_dialect(r)
        d4 = superset(r, d3)
        ds = [MIN, d1, d2, d3, d4, FULL]
        for d in ds:
            seen_dialects.add(json.dumps(d, sort_keys=True))
        cases.append({"id": "i%d" % i, "src": t, "dialects": ds, "sexp": False, "roundtrip": False})
        dial_of["i%d" % i] = ds
    log("[C05] %d inputs x 6 dialects" % len(ins))
    flavors = ["dbg"] if tier == "quick" else ["dbg", "asan"]
    st = {"ok": 0, "err": 0, "mono_pairs": 0, "nodes": 0, "kinds": {}}
    distinct = set()
    for flavor in flavors:
        try:
            svh = os.path.join(common.build(flavor), "svh")
        except common.BuildError as e:
            if flavor == "dbg":
                raise
            rep.inconc("flavor %s unavailable" % flavor, str(e)[-300:])
            continue
        asan = flavor == "asan"
        env = {"ASAN_OPTIONS": "abort_on_error=1:detect_leaks=0"} if asan else None
        sub = cases if not asan else cases[:: 10]
        batch = common.run_cases(svh, "parse", sub, "c05_" + flavor, shards=NCPU, timeout=3000, env_extra=env, asan_like=asan, per_case_timeout=60)
        for cr in batch.crashes:
            rep.violation("c05:" + common.crash_signature(cr), "[%s] parser crashed (process died) on %r" % (flavor, cr["case"]["src"][:200]), {"flavor": flavor, "case": cr["case"], "crash": cr.get("confirm")})
        for inc in batch.inconclusive:
            if "timeout" in inc["why"]:
                rep.inconc("parse did not finish in 60 s (single observation)", inc.get("id"))
            else:
                rep.inconc(inc["why"], inc.get("id"))
        def judge(c, kind, t, evs, flavor):
            ds = dial_of[c["id"]]
            res = {}
            for e in evs:
                wit = {"flavor": flavor, "src": t, "dialect": ds[e[1]] if len(e) > 1 and isinstance(e[1], int) else None, "kind": kind}
                if e[0] == "panic":
                    rep.violation("c05:panic:" + str(e[2])[:90], "[%s] parser panicked on %r under %s: %s" % (flavor, t[:120], json.dumps(ds[e[1]]), e[2]), wit)
                elif e[0] == "ok":
                    st["ok"] += 1
                    st["nodes"] += e[4]
                    res[e[1]] = (e[2], e[5])
                    if e[3]:
                        rep.violation("c05:span:" + _mask(e[3][0]), "[%s] %r parsed under %s but: %s" % (flavor, t[:120], json.dumps(ds[e[1]]), "; ".join(e[3][:3])), wit)
                elif e[0] == "err":
                    st["err"] += 1
                    if e[3]:
                        rep.violation("c05:error:" + _mask(e[3][0]), "[%s] %r rejected under %s (%s) but: %s" % (flavor, t[:120], json.dumps(ds[e[1]]), e[2], "; ".join(e[3][:3])), wit)
            st["kinds"][kind] = st["kinds"].get(kind, 0) + 1
            distinct.add(hash(t))
            # monotonicity over all comparable dialect pairs of this input
            for a in range(len(ds)):
                for b in range(len(ds)):
                    if a != b and leq(ds[a], ds[b]) and a in res:
                        st["mono_pairs"] += 1
                        if b not in res:
                            eb = [e for e in evs if e[0] == "err" and e[1] == b]
                            rep.violation("c05:monotone:rejected:" + _mask(eb[0][2] if eb else "?"), "[%s] %r is accepted under %s but rejected under the larger dialect %s (%s)" % (
                                flavor, t[:120], json.dumps(ds[a]), json.dumps(ds[b]), eb[0][2] if eb else "?"), {"flavor": flavor, "src": t, "dialects": [ds[a], ds[b]]})
                        elif res[a] != res[b]:
                            rep.violation("c05:monotone:tree-changes", "[%s] %r parses to different trees/spans under %s and the larger dialect %s" % (flavor, t[:120], json.dumps(ds[a]), json.dumps(ds[b])),
                                          {"flavor": flavor, "src": t, "dialects": [ds[a], ds[b]]})

        for c, (kind, t) in zip(cases, ins):
            evs = batch.events.get(c["id"])
            if evs is not None:
                judge(c, kind, t, evs, flavor)
        if flavor == "dbg" and tier == "thorough":
            fuzz_leg(rep, s, svh, dial_of, judge, st)
    rep.coverage = {
        "evaluations": st["ok"] + st["err"],
        "distinct_nontrivial": len(distinct),
        "rule": "evaluation = one (input, dialect) parse with all span / error assertions; distinct_nontrivial = distinct input texts",
        "samples": [{"kind": k, "text": t[:200]} for k, t in ins[::max(1, len(ins) // 6)]][:6],
        "inputs": len(ins),
        "inputs_by_kind": st["kinds"],
        "parses_ok": st["ok"],
        "parses_err": st["err"],
        "ast_nodes_walked": st["nodes"],
        "monotonicity_pairs_checked": st["mono_pairs"],
        "distinct_dialects_used": len(seen_dialects),
        "coverage_guided_leg": st.get("fuzz", "thorough tier only"),
        "flavors": flavors,
    }
    rep.assumptions = ["inputs are valid UTF-8 up to 64 KiB with nesting <= 200 (the parser is recursive; the property bounds nesting)",
                       "a single timeout is inconclusive"]
    rep.finish(sanity_ok=st["ok"] > 2000 and st["err"] > 2000 and st["mono_pairs"] > 1000, sanity_msg="too few parses")


def _mask(m):
    import re
    return re.sub(r"`[^`]*`|[0-9]+", "_", m)[:70]


def replay(rep):
    w = rep["witness"]
    svh = os.path.join(common.build("dbg"), "svh")
    ds = w.get("dialects") or [w.get("dialect") or FULL]
    c = {"id": "r", "src": w["src"], "dialects": ds, "sexp": True}
    b = common.run_cases(svh, "parse", [c], "c05_replay", shards=1)
    print(repr(w["src"]))
    print(json.dumps(b.events.get("r"))[:3000])
    if b.crashes:
        print(b.crashes[0].get("confirm"))
    return 1
