"""C08: arguments bind to parameters exactly as the call rules say, on every call path.
Oracle: CPython performing the same call on the same signature (ok/fail and the tuple of bound values; messages are
never compared). Space: all legal signatures with up to 5 parameters over the parameter kinds x call shapes
(positional 0..4, named 0..3, *seq of length 0..3, **map of size 0..3 with overlapping names)."""
import itertools
import json
import os
import random

import common
import ref_py
from common import NCPU, Report, log, seed

NAMES = ["a", "b", "c", "d", "e"]


def signatures():
    """Yield (text of parameter list, list of parameter names in order, structure dict)."""
    out = []
    for n_po in range(0, 3):
        for n_pk in range(0, 4):
            for star in ("", "*args", "*"):
                for n_ko in range(0, 3):
                    for kw in (False, True):
                        total = n_po + n_pk + n_ko + (1 if star == "*args" else 0) + (1 if kw else 0)
                        if total == 0 or total > 5:
                            continue
                        if star == "*" and n_ko == 0:
                            continue
                        if star == "" and n_ko > 0:
                            continue
                        npos = n_po + n_pk
                        for ndef in range(0, npos + 1):
                            for ko_defs in itertools.product((False, True), repeat=n_ko):
                                names = list(NAMES[: npos + n_ko])
                                parts = []
                                for i in range(npos):
                                    has_def = i >= npos - ndef
                                    parts.append(names[i] + ("=%d" % (100 + i) if has_def else ""))
                                    if i == n_po - 1:
                                        parts.append("/")
                                if star:
                                    parts.append(star)
                                for j in range(n_ko):
                                    nm = names[npos + j]
                                    parts.append(nm + ("=%d" % (200 + j) if ko_defs[j] else ""))
                                if kw:
                                    parts.append("**kwargs")
                                ret = names[:npos] + (["args"] if star == "*args" else []) + names[npos:] + (["kwargs"] if kw else [])
                                out.append((", ".join(parts), ret, {"n_po": n_po, "n_pk": n_pk, "star": star, "n_ko": n_ko, "kw": kw, "ndef": ndef, "ko_defs": ko_defs}))
    return out


def call_shapes(names, rng, full):
    """Argument lists as (text, host_pos or None, host_named or None). Names that may be used as keywords."""
    kwnames = names + ["zz"]
    shapes = []
    for npos in range(0, 5):
        pos = [str(10 + i) for i in range(npos)]
        named_opts = [()]
        for k in (1, 2, 3):
            combos = list(itertools.permutations(kwnames, k))
            if not full and len(combos) > 6:
                combos = rng.sample(combos, 6)
            named_opts += combos
        for named in named_opts:
            nm = ["%s=%d" % (n, 20 + i) for i, n in enumerate(named)]
            seq_opts = [None, [], [30], [30, 31], [30, 31, 32]]
            map_opts = [None, {}, ]
            for k in (1, 2, 3):
                combos = list(itertools.combinations(kwnames, k))
                if not full and len(combos) > 4:
                    combos = rng.sample(combos, 4)
                map_opts += [{n: 40 + i for i, n in enumerate(c)} for c in combos]
            if not full:
                seq_opts = [None] + rng.sample(seq_opts[1:], 2)
                map_opts = [None] + rng.sample(map_opts[1:], min(3, len(map_opts) - 1))
            for seq in seq_opts:
                for mp in map_opts:
                    parts = pos + nm
                    if seq is not None:
                        parts = parts + ["*%s" % json.dumps(seq)]
                    if mp is not None:
                        parts = parts + ["**%s" % json.dumps(mp)]
                    host = None
                    if seq is None and mp is None:
                        host = (["i%d" % (10 + i) for i in range(npos)], [[n, "i%d" % (20 + i)] for i, n in enumerate(named)])
                    shapes.append((", ".join(parts), host, (pos, list(nm), seq, mp)))
    return shapes


def py_expected(sig_text, ret, calls):
    env = {}
    src = "def f(%s):\n    return (%s,)\n" % (sig_text, ", ".join(ret))
    exec(compile(src, "sig", "exec"), env)
    f = env["f"]
    out = []
    for text, host, _st in calls:
        try:
            r = eval("f(%s)" % text, {"f": f})
            out.append(["ok", ref_py.canon(r)])
        except TypeError:
            out.append(["fail"])
        except SyntaxError:
            out.append(["syntax"])  # e.g. repeated keyword: rejected statically by both
    return out


def star_src(sig_text, ret, calls, path, body=None):
    d = "def f(%s):\n    return %s\n" % (sig_text, body or "(%s,)" % ", ".join(ret))
    if path == "direct":
        callee = "f"
    elif path == "variable":
        callee = "opaque(f)"
    elif path == "struct_field":
        d += "S = struct(f=f)\n"
        callee = "S.f"
    elif path == "partial":
        d += "PF = partial(f)\n"
        callee = "PF"
    else:
        callee = "f"
    body = "".join("emit(attempt(lambda: %s(%s)))\n" % (callee, c[0]) for c in calls)
    return d, body


def star_result(ev):
    v = ev[1]
    if isinstance(v, list) and v and v[0] == "t" and len(v) == 3:
        if v[1] == "sok":
            return ["ok", v[2]]
        return ["fail", v[2]]
    return ["bad", v]


def run(tier):
    rep = Report("C08", tier)
    s = seed()
    rng = random.Random("%d/c08" % s)
    full = tier == "thorough"
    sigs = signatures()
    log("[C08] %d signatures" % len(sigs))
    if not full:
        small = [x for x in sigs if len(x[1]) <= 2]
        rest = [x for x in sigs if len(x[1]) > 2]
        sigs = small + rng.sample(rest, min(len(rest), 260))
    paths = ["direct", "variable", "struct_field", "partial", "frozen_load", "host"]
    cases, meta = [], {}
    ncalls = 0
    for si, (sig_text, ret, struct_) in enumerate(sigs):
        names = [n for n in ret if n not in ("args", "kwargs")]
        # quick: sampled call shapes, 140 per signature; thorough: every signature, 700 call shapes per signature drawn from the
        # fuller enumeration (the complete product of shapes x 13 paths does not finish in hours)
        calls = call_shapes(names, random.Random("%d/c08/%d" % (s, si)), False)
        cap = 140 if not full else 700
        if full:
            more = call_shapes(names, random.Random("%d/c08f/%d" % (s, si)), False)
            calls = calls + [c for c in more if c[0] not in set(x[0] for x in calls)]
        if len(calls) > cap:
            calls = random.Random("%d/c08s/%d" % (s, si)).sample(calls, cap)
        calls = [c for c in calls]
        exp = py_expected(sig_text, ret, calls)
        keep = [(c, e) for c, e in zip(calls, exp) if e[0] != "syntax"]
        calls, exp = [k[0] for k in keep], [k[1] for k in keep]
        ncalls += len(calls)
        for path in paths:
            cid = "s%d/%s" % (si, path)
            if path in ("direct", "variable", "struct_field", "partial"):
                d, body = star_src(sig_text, ret, calls, path)
                units = [{"file": "sig.star", "src": d + body}]
                meta[cid] = (sig_text, calls, exp, path)
            elif path == "frozen_load":
                d, body = star_src(sig_text, ret, calls, "direct")
                units = [{"file": "sig.star", "src": d, "freeze": True}, {"file": "use.star", "src": 'load("sig.star", "f")\n' + body}]
                meta[cid] = (sig_text, calls, exp, path)
            else:
                hc = [(c, e) for c, e in zip(calls, exp) if c[1] is not None]
                d, _ = star_src(sig_text, ret, [], "direct")
                units = [{"file": "sig.star", "src": d, "calls": [{"fn": "f", "pos": c[1][0], "named": c[1][1]} for c, _ in hc]}]
                meta[cid] = (sig_text, [c for c, _ in hc], [e for _, e in hc], path)
            cases.append({"id": cid, "cfg": {"dialect": "internal"}, "units": units})
        # the additional paths below run on a bounded sample of the call shapes in the exhaustive tier (the eight basic paths stay exhaustive)
        calls_all, exp_all = calls, exp
        if full and len(calls) > 500:
            idx = sorted(random.Random("%d/c08x/%d" % (s, si)).sample(range(len(calls)), 500))
            calls, exp = [calls_all[k] for k in idx], [exp_all[k] for k in idx]
        # bodies the compiler inlines at call sites of frozen defs (`return type(x) == "T"`, a safe-to-inline expression):
        # binding must be decided before the body is substituted
        if len(ret) <= 2 and "args" not in ret and "kwargs" not in ret:
            for bname, btext, conv in (("typeis", 'type(%s) == "int"' % ret[0], lambda v: True), ("expr", "[%s]" % ", ".join(ret), lambda v: ["l"] + v[1:])):
                exp2 = [["ok", conv(e[1])] if e[0] == "ok" else e for e in exp]
                d2, body2 = star_src(sig_text, ret, calls, "direct", body=btext)
                cid = "s%d/inline_%s_frozen" % (si, bname)
                cases.append({"id": cid, "cfg": {"dialect": "internal"}, "units": [{"file": "sig.star", "src": d2 + "def viaf(*a, **k):\n    return f(*a, **k)\n", "freeze": True},
                                                                                     {"file": "use.star", "src": 'load("sig.star", "f")\n' + body2}]})
                meta[cid] = (sig_text + " [body: return " + btext + "]", calls, exp2, "inline_frozen")
                cid = "s%d/inline_%s_local" % (si, bname)
                cases.append({"id": cid, "cfg": {"dialect": "internal"}, "units": [{"file": "sig.star", "src": d2 + "def caller():\n" + "".join("    " + l + "\n" for l in body2.splitlines()) + "caller()\n"}]})
                meta[cid] = (sig_text + " [body: return " + btext + "]", calls, exp2, "inline_local")
                ncalls += 2 * len(calls)
        # partial(): the call f(P.., N.., *s, **m) split into partial(f, P[:i], N[:j])(P[i:], N[j:], *s, **m) must bind like the call itself;
        # naming a pre-bound keyword again must fail. Partials built in the calling module, in a frozen module, and called from the host.
        prng = random.Random("%d/c08p/%d" % (s, si))
        pcalls, pexp = [], []
        for c, e in zip(calls, exp):
            pos, nm, seq, mp = c[2]
            i, j = prng.randint(0, len(pos)), prng.randint(0, len(nm))
            pre = pos[:i] + nm[:j]
            post = pos[i:] + nm[j:] + (["*%s" % json.dumps(seq)] if seq is not None else []) + (["**%s" % json.dumps(mp)] if mp is not None else [])
            hostp = None
            if c[1] is not None:
                hostp = (c[1][0][i:], c[1][1][j:])
            pcalls.append(("partial(f, %s)(%s)" % (", ".join(pre), ", ".join(post)), hostp, (", ".join(pre), ", ".join(post))))
            pexp.append(e)
            if nm[:j] and prng.random() < 0.5:
                again = nm[prng.randrange(j)].split("=")[0]
                hostp2 = (hostp[0], hostp[1] + [[again, "i77"]]) if hostp is not None else None
                rest = pos[i:] + nm[j:] + ["%s=77" % again] + post[len(pos[i:]) + len(nm[j:]):]
                pcalls.append(("partial(f, %s)(%s)" % (", ".join(pre), ", ".join(rest)), hostp2, (", ".join(pre), ", ".join(rest))))
                pexp.append(["fail"])
        d0, _b = star_src(sig_text, ret, [], "direct")
        cid = "s%d/partial_split" % si
        cases.append({"id": cid, "cfg": {"dialect": "internal"}, "units": [{"file": "sig.star", "src": d0 + "".join("emit(attempt(lambda: partial(f, %s)(%s)))\n" % c[2] for c in pcalls)}]})
        meta[cid] = (sig_text, pcalls, pexp, "partial_split")
        cid = "s%d/partial_frozen" % si
        lib = d0 + "PS = [\n" + "".join("    partial(f, %s),\n" % c[2][0] for c in pcalls) + "]\n"
        use = 'load("sig.star", "PS")\n' + "".join("emit(attempt(lambda: PS[%d](%s)))\n" % (k, c[2][1]) for k, c in enumerate(pcalls))
        cases.append({"id": cid, "cfg": {"dialect": "internal"}, "units": [{"file": "sig.star", "src": lib, "freeze": True}, {"file": "use.star", "src": use}]})
        meta[cid] = (sig_text, pcalls, pexp, "partial_frozen")
        hp = [(k, c, e) for k, (c, e) in enumerate(zip(pcalls, pexp)) if c[1] is not None]
        cid = "s%d/partial_host" % si
        srch = d0 + "".join("PH%d = partial(f, %s)\n" % (k, c[2][0]) for k, c, _ in hp)
        cases.append({"id": cid, "cfg": {"dialect": "internal"}, "units": [{"file": "sig.star", "src": srch, "calls": [{"fn": "PH%d" % k, "pos": c[1][0], "named": c[1][1]} for k, c, _ in hp]}]})
        meta[cid] = (sig_text, [c for _, c, _ in hp], [e for _, _, e in hp], "partial_host")
        ncalls += 2 * len(pcalls) + len(hp)
        calls, exp = calls_all, exp_all
    # native functions (harness natives defined with #[starlark_module]); the oracle is the corresponding Python signature
    NATIVES = [
        ("nat_po2", "a, b, /", ["a", "b"]), ("nat_pk2", "a, b", ["a", "b"]), ("nat_pk_def", "a, b=101", ["a", "b"]),
        ("nat_po_pk_def", "a, /, b, c=102", ["a", "b", "c"]), ("nat_named", "*, d, e=201", ["d", "e"]), ("nat_pk_named", "a, *, d", ["a", "d"]),
        ("nat_args", "a, *args", ["a", "args"]), ("nat_kwargs", "a, **kwargs", ["a", "kwargs"]),
        ("nat_all", "a, /, b=101, *args, d, e=201, **kwargs", ["a", "b", "args", "d", "e", "kwargs"]),
        ("nat_only_args_kwargs", "*args, **kwargs", ["args", "kwargs"]),
    ]
    for ni, (nat, sig_text, ret) in enumerate(NATIVES):
        names = [n for n in ret if n not in ("args", "kwargs")]
        calls = call_shapes(names, random.Random("%d/c08n/%d" % (s, ni)), True)
        if not full and len(calls) > 600:
            calls = random.Random("%d/c08ns/%d" % (s, ni)).sample(calls, 600)
        exp = py_expected(sig_text, ret, calls)
        keep = [(c, e) for c, e in zip(calls, exp) if e[0] != "syntax"]
        calls, exp = [k[0] for k in keep], [k[1] for k in keep]
        for path, callee in (("native", nat), ("native_variable", "opaque(%s)" % nat)):
            cid = "n%d/%s" % (ni, path)
            body = "".join("emit(attempt(lambda: %s(%s)))\n" % (callee, c[0]) for c in calls)
            cases.append({"id": cid, "cfg": {"dialect": "internal"}, "units": [{"file": "nat.star", "src": body}]})
            meta[cid] = ("<native %s> %s" % (nat, sig_text), calls, exp, path)
        ncalls += len(calls)
    paths = paths + ["inline_frozen", "inline_local", "partial_split", "partial_frozen", "partial_host", "native", "native_variable"]
    log("[C08] %d signatures x %d paths, %d call shapes" % (len(sigs), len(paths), ncalls))
    svh = os.path.join(common.build("dbg"), "svh")
    batch = common.run_cases(svh, "run", cases, "c08", shards=NCPU, timeout=3000)
    for cr in batch.crashes:
        rep.violation("c08:" + common.crash_signature(cr), "crash in %s" % cr["id"], {"case": cr["case"], "crash": cr.get("confirm")})
    for inc in batch.inconclusive:
        rep.inconc(inc["why"], inc.get("id"))
    agree = {p: 0 for p in paths}
    ok_calls = fail_calls = 0
    distinct = set()
    samples = []
    for c in cases:
        evs = batch.events.get(c["id"])
        if evs is None:
            continue
        sig_text, calls, exp, path = meta[c["id"]]
        bad = [e for e in evs if e[0] == "r" and e[3] != "ok"]
        if bad:
            rep.violation("c08:module-failed:%s" % path, "%s: def f(%s) module failed: %s" % (c["id"], sig_text, json.dumps(bad[0][4])[:300]), {"case": c})
            continue
        if path in ("host", "partial_host"):
            got = []
            for e in evs:
                if e[0] == "call":
                    got.append(["ok", e[3]] if e[2] == "ok" else ["fail", e[3].get("msg") if isinstance(e[3], dict) else e[2]])
        else:
            got = [star_result(e) for e in evs if e[0] == "e"]
        if len(got) != len(exp):
            rep.violation("c08:incomplete:%s" % path, "%s: %d results for %d calls" % (c["id"], len(got), len(exp)), {"case": c})
            continue
        for cc, e, g in zip(calls, exp, got):
            text = cc[0]
            same = (e[0] == "ok" and g[0] == "ok" and e[1] == g[1]) or (e[0] == "fail" and g[0] == "fail")
            if same:
                agree[path] += 1
                if e[0] == "ok":
                    ok_calls += 1
                else:
                    fail_calls += 1
                distinct.add((sig_text, text))
            else:
                rep.violation("c08:%s:%s:%s" % (path, _sigshape(sig_text), "ok-vs-fail" if e[0] != g[0] else "values"),
                              "def f(%s); f(%s) via %s: starlark %s, call rules (CPython) %s" % (sig_text, text, path, json.dumps(g)[:200], json.dumps(e)[:200]),
                              {"sig": sig_text, "call": text, "path": path, "case": c, "expected": e, "got": g})
        if len(samples) < 3 and path == "direct" and len(calls) > 20:
            samples.append({"signature": "def f(%s)" % sig_text, "calls": [c[0] for c in calls[:8]], "expected": exp[:8]})
    rep.coverage = {
        "evaluations": sum(agree.values()) + len(rep.violations),
        "distinct_nontrivial": len(distinct),
        "rule": "evaluation = one (signature, call, call path) compared with CPython binding the same call; distinct_nontrivial = distinct (signature, call text) pairs",
        "samples": samples,
        "signatures": len(sigs),
        "call_paths": paths,
        "agreeing_per_path": agree,
        "calls_that_bind": ok_calls,
        "calls_that_must_fail": fail_calls,
        "exhaustive": False,
    }
    rep.assumptions = ["argument order restricted to positional*, named*, *seq?, **map? with string keys and int defaults (written identically in both languages)",
                       "native functions are covered by a fixed family of 10 harness natives spanning the parameter kinds"]
    rep.finish(sanity_ok=sum(agree.values()) > 5000 and fail_calls > 500 and ok_calls > 500, sanity_msg="too few calls compared")


def _sigshape(sig):
    import re
    return re.sub(r"=[0-9]+", "=D", sig)[:40]


def replay(rep):
    w = rep["witness"]
    svh = os.path.join(common.build("dbg"), "svh")
    if "sig" not in w:
        print(json.dumps(w)[:2000])
        return 1
    src = "def f(%s):\n    return (%s,)\nemit(attempt(lambda: f(%s)))\n" % (w["sig"], "1", w["call"])
    print("def f(%s); f(%s) via %s" % (w["sig"], w["call"], w["path"]))
    print("expected", w["expected"], "got", w["got"])
    return 1
