"""C04: freezing preserves every value and makes it permanently immutable.
Monitors: (a) conservation: encoding/hash/str/repr of every export just before freeze == after freeze;
(b) in importing modules, a generic walker finds every container reachable from the loaded values and tries the
whole mutator catalogue on it: each attempt is first run on an unfrozen shallow copy (control: must succeed and
change the copy) and then on the frozen container (must fail); (c) non-mutating operations give the same result
on the frozen value and on the copy; (d) after all attempts every export still has its recorded encoding."""
import json
import os
import random

import common
import gen_full
from common import NCPU, Report, log, seed

WALKER = r'''
def _sub(p, suffix):
    return None if p == None else p + suffix

def _children(v, p):
    # (child, path): path is the source text of an expression with literal indices reaching the child, or None
    t = type(v)
    if t == "list" or t == "tuple":
        return [(v[i], _sub(p, "[%d]" % i)) for i in range(len(v))]
    if t == "dict":
        return [(v[k], _sub(p, "[" + repr(k) + "]") if type(k) in ("string", "int") else None) for k in v.keys()] + [(k, None) for k in v.keys()]
    if t == "struct" or t == "record":
        return [(getattr(v, n), _sub(p, "." + n)) for n in dir(v) if n not in ("to_json",)]
    return []

def _walk(roots, limit):
    seen = []   # (container, path) found (list/dict/set), possibly with duplicates through aliasing
    frontier = [(r[1], 0, r[0]) for r in roots]
    for _ in range(limit):
        if not frontier:
            break
        nxt = []
        for v, d, p in frontier:
            t = type(v)
            if t in ("list", "dict", "set"):
                seen.append((v, p))
            if d < 4 and len(seen) < 60:
                for c, cp in _children(v, p):
                    nxt.append((c, d + 1, cp))
        frontier = nxt[:200]
    return seen

def _m_append(A): A.append(9)
def _m_extend(A): A.extend([9])
def _m_insert(A): A.insert(0, 9)
def _m_pop(A): A.pop()
def _m_remove(A): A.remove(A[0])
def _m_clear(A): A.clear()
def _m_setitem(A): A[0] = 99
def _m_iadd(A):
    A += [9]
def _m_setitem_aug(A):
    A[0] += 1
def _d_setnew(A): A["__new__"] = 9
def _d_setold(A): A[list(A.keys())[0]] = 99
def _d_pop(A): A.pop(list(A.keys())[0])
def _d_popitem(A): A.popitem()
def _d_setdefault(A): A.setdefault("__new__", 1)
def _d_update(A): A.update({"__new__": 1})
def _d_update_kw(A): A.update(__new__=1)
def _d_clear(A): A.clear()
def _d_ior(A):
    A |= {"__new__": 1}
def _s_add(A): A.add("__new__")
def _s_remove(A): A.remove(list(A)[0])
def _s_discard(A): A.discard(list(A)[0])
def _s_pop(A): A.pop()
def _s_clear(A): A.clear()
def _s_update(A): A.update(["__new__"])

def _n_extend0(A): A.extend([])
def _n_iadd0(A):
    A += []
def _n_update0(A): A.update({})
def _n_update_kw0(A): A.update()
def _n_ior_self(A):
    A |= A
def _n_ior0(A):
    A |= {}
def _n_supdate0(A): A.update([])

# operations that are mutations by kind but change nothing for these operands: on an unfrozen value they succeed,
# on a frozen value they are still attempts to mutate and must fail
_NOOP = {
    "list": [("extend_empty", _n_extend0), ("iadd_empty", _n_iadd0)],
    "dict": [("update_empty", _n_update0), ("update_noargs", _n_update_kw0), ("ior_self", _n_ior_self), ("ior_empty", _n_ior0)],
    "set": [("update_empty", _n_supdate0)],
}

_MUT = {
    "list": [("append", _m_append), ("extend", _m_extend), ("insert", _m_insert), ("pop", _m_pop), ("remove", _m_remove), ("clear", _m_clear),
             ("setitem", _m_setitem), ("iadd", _m_iadd), ("setitem_aug", _m_setitem_aug)],
    "dict": [("setnew", _d_setnew), ("setold", _d_setold), ("pop", _d_pop), ("popitem", _d_popitem), ("setdefault", _d_setdefault), ("update", _d_update),
             ("update_kw", _d_update_kw), ("clear", _d_clear), ("ior", _d_ior)],
    "set": [("add", _s_add), ("remove", _s_remove), ("discard", _s_discard), ("pop", _s_pop), ("clear", _s_clear), ("update", _s_update)],
}

def _copy(v):
    t = type(v)
    if t == "list":
        return list(v)
    if t == "dict":
        return dict(v)
    return set(v)

def _nonmut(v):
    t = type(v)
    def ops():
        r = [len(v), repr(v), str(v), [x for x in v], v == _copy(v), bool(v)]
        if t == "list":
            r += [v + [1], v[0:1], v * 2, (v[0] if v else None), (v.index(v[0]) if v else -1), 7 in v]
        if t == "dict":
            r += [list(v.keys()), list(v.values()), list(v.items()), v | {"zz": 1}, v.get("a"), "a" in v]
        if t == "set":
            r += [v | set([1]), v.union([2]), v.issubset(v), 1 in v]
        return r
    return attempt(ops)

def attack(tag, roots):
    found = _walk(roots, 6)
    cs = [f[0] for f in found]
    emit("found", tag, len(cs), [type(c) for c in cs])
    emit("paths", tag, [[f[1] if f[1] != None else "", type(f[0]), repr(f[0])] for f in found])
    for i, c in enumerate(cs):
        t = type(c)
        cp = _copy(c)
        emit("nonmut", tag, i, t, _nonmut(c), _nonmut(cp))
        for name, m in _MUT[t]:
            before = repr(c)
            cp = _copy(c)
            cp_before = repr(cp)
            ctl = attempt(lambda: m(cp))
            changed = repr(cp) != cp_before
            r = attempt(lambda: m(c))
            emit("att", tag, i, t, name, ctl[0], changed, r[0], repr(c) == before, r[1] if r[0] == "err" else "")
        for name, m in _NOOP[t]:
            cp = _copy(c)
            ctl = attempt(lambda: m(cp))
            r = attempt(lambda: m(c))
            emit("noop", tag, i, t, name, ctl[0], r[0])
'''


BASE = """BASE_STATE = {"items": [1, 2, 3], "name": "state"}
BASE_OTHER = ["other", 7]
def make_getter(tag):
    def inner():
        return [BASE_STATE, tag, len(BASE_STATE["items"]), BASE_OTHER]
    return inner
def make_reader(i):
    def inner():
        return (BASE_OTHER[i % 2], BASE_STATE["name"], i)
    return inner
"""


def importer_src(names, fns, tag, lib_file="lib.star", extra=""):
    loads = ", ".join('"%s"' % n for n in names + [f.name for f in fns])
    src = 'load("%s", %s)\n' % (lib_file, loads) if loads else ""
    src += WALKER
    src += extra
    src += "attack(\"%s\", [%s])\n" % (tag, ", ".join('("%s", %s)' % (n, n) for n in names))
    # exported functions: call them (pure ones must work; ones that would mutate captured state must fail or change nothing)
    for f in fns:
        args = ", ".join(gen_lit(pt) for (_, pt, hd) in f.params if not hd)
        src += "emit(\"call\", \"%s\", attempt(lambda: %s(%s))[0])\n" % (f.name, f.name, args)
    src += "".join('snapshot("%s", %s)\n' % (n, n) for n in names)
    return src


def gen_lit(ty):
    return {"int": "3", "str": '"ab"', "bool": "True", "list_int": "[1, 2]", "list_str": '["a"]', "dict_si": '{"a": 1}', "dict_is": '{1: "a"}',
            "tup_is": '(1, "a")', "list_list_int": "[[1]]"}.get(ty, "None")


LIT_MUT = {
    "list": {"append": "{P}.append(9)", "extend": "{P}.extend([9])", "insert": "{P}.insert(0, 9)", "pop": "{P}.pop()", "remove": "{P}.remove({P}[0])", "clear": "{P}.clear()",
             "setitem": "{P}[0] = 99", "iadd": "{P} += [9]", "setitem_aug": "{P}[0] += 1"},
    "dict": {"setnew": '{P}["__new__"] = 9', "setold": "{P}[list({P}.keys())[0]] = 99", "pop": "{P}.pop(list({P}.keys())[0])", "popitem": "{P}.popitem()",
             "setdefault": '{P}.setdefault("__new__", 1)', "update": '{P}.update({"__new__": 1})', "update_kw": "{P}.update(__new__=1)", "clear": "{P}.clear()",
             "ior": '{P} |= {"__new__": 1}'},
    "set": {"add": '{P}.add("__new__")', "remove": "{P}.remove(list({P})[0])", "discard": "{P}.discard(list({P})[0])", "pop": "{P}.pop()", "clear": "{P}.clear()",
            "update": '{P}.update(["__new__"])'},
}


def const_path_case(c, evs, rng):
    """Round 2: the same library, attacked through *literal* paths (LIB_X[0]["k"].append(9)), i.e. expressions the
    optimiser can fold because loaded / frozen module values are constants to it. Each attempt is written out as
    its own def, once in an importing module and once in the library itself (re-optimised when the library freezes),
    only for (container, mutator) pairs whose control on an unfrozen copy showed the operation is a real mutation."""
    paths = None
    well = {}
    for e in evs:
        if e[0] != "e" or not isinstance(e[1], str):
            continue
        if e[1] == "spaths" and e[2] == "simp0":
            paths = [[x[1][1:], x[2][1:], x[3][1:]] for x in e[3][1:]]
        elif e[1] == "satt" and e[2] == "simp0" and e[6] == "sok" and e[7] is True:
            well.setdefault(int(e[3][1:]), []).append(e[5][1:])
    if not paths:
        return None, []
    lib_unit = None
    for u in c["units"]:
        if u["file"] == "lib.star":
            lib_unit = u
    imp0 = [u for u in c["units"] if u["file"] == "imp0.star"][0]
    loads = imp0["src"].split("\n", 1)[0]
    idxs = [i for i, pth in enumerate(paths) if pth[0] and well.get(i)]
    rng.shuffle(idxs)
    idxs = idxs[:14]
    imp_defs, imp_calls, lib_defs, lib_names, expect = [], [], [], [], []
    k = 0
    for i in idxs:
        P, kind, rp = paths[i]
        bare = not any(ch in P for ch in "[.")
        imp_calls.append('emit("lrepr", %d, repr(%s))\n' % (i, P))
        for mname in well[i]:
            tmpl = LIT_MUT[kind].get(mname)
            if tmpl is None or (bare and mname in ("iadd", "ior")):
                continue
            stmt = tmpl.replace("{P}", P)
            k += 1
            imp_defs.append("def _l%d():\n    %s\n" % (k, stmt))
            imp_calls.append('emit("latt", "imp", %d, "%s", "%s", attempt(_l%d)[0], repr(%s))\n' % (i, kind, mname, k, P))
            lib_defs.append("def lib_lit%d():\n    %s\n" % (k, stmt))
            lib_names.append("lib_lit%d" % k)
            imp_calls.append('emit("latt", "lib", %d, "%s", "%s", attempt(lib_lit%d)[0], repr(%s))\n' % (i, kind, mname, k, P))
        expect.append((i, P, kind, rp))
    if not k:
        return None, []
    lib2 = dict(lib_unit)
    lib2["src"] = lib_unit["src"] + "".join(lib_defs)
    lib2.pop("snapshot", None)
    lib2.pop("snapshot_calls", None)
    loads2 = loads[:-1] + "".join(', "%s"' % n for n in lib_names) + ")"
    imp = {"file": "imp_lit.star", "src": loads2 + "\n" + "".join(imp_defs) + "".join(imp_calls)}
    units = [u for u in c["units"] if u["file"] == "base.star"] + [lib2, imp]
    return {"id": c["id"] + "/lit", "cfg": c["cfg"], "units": units}, expect


def check_const_paths(rep, flavor, c2, expect, evs, st):
    wit = {"flavor": flavor, "case": c2}
    exp = {i: (P, kind, rp) for (i, P, kind, rp) in expect}
    for e in evs:
        if e[0] == "r" and e[3] == "err":
            rep.violation("c04:const-path-module-failed:" + e[4].get("msg", "")[:50], "[%s] %s: module %s of the literal-path round failed: %s" % (flavor, c2["id"], e[1], e[4].get("msg")), wit)
        if e[0] != "e" or not isinstance(e[1], str):
            continue
        if e[1] == "slrepr":
            i = int(e[2][1:])
            st["const_path_observations"] += 1
            if e[3][1:] != exp[i][2]:
                rep.violation("c04:const-path-observation-differs:" + exp[i][1], "[%s] %s: repr(%s) written with literal indices is %s but the walker saw %s" % (
                    flavor, c2["id"], exp[i][0], e[3][1:][:200], exp[i][2][:200]), wit)
        elif e[1] == "slatt":
            where, i, kind, mname, res, after = e[2][1:], int(e[3][1:]), e[4][1:], e[5][1:], e[6], e[7][1:]
            st["const_path_attempts"] += 1
            P = exp[i][0]
            if res != "serr":
                rep.violation("c04:mutation-succeeded-const-path:%s:%s" % (kind, mname), "[%s] %s: `%s` on the frozen %s at literal path %s (def in the %s) did not fail" % (
                    flavor, c2["id"], LIT_MUT[kind][mname].replace("{P}", P), kind, P, "importing module" if where == "imp" else "library, re-optimised at freeze"), wit)
            elif after != exp[i][2]:
                rep.violation("c04:const-path-mutation-changed:%s:%s" % (kind, mname), "[%s] %s: after the failed `%s` repr(%s) is %s, was %s" % (
                    flavor, c2["id"], LIT_MUT[kind][mname].replace("{P}", P), P, after[:200], exp[i][2][:200]), wit)


def make_case(i, s):
    rng = random.Random("%d/c04/%d" % (s, i))
    g = gen_full.FullGen(rng, heap_heavy=True, max_stmts=rng.choice([20, 40, 70]), inject_fail=0.0, risk=0.0)
    lines = g.program()
    sc = g.top_scope
    names = [v.name for v in sc.vars if not v.name.startswith(("i", "m", "pf"))]
    fns = [f for f in sc.fns if f.name != "undefined_fn_arity"]
    # closures produced by factories of an already frozen module, stored in this module's exports:
    # what they return must be the same before this module is frozen, after, and from any importer
    npad = rng.randint(0, 12)
    base_src = "".join("PAD%d = %d\n" % (k, k) for k in range(npad)) + BASE
    pre = 'load("base.star", "make_getter", "make_reader", "BASE_STATE")\n'
    pre += 'getter1 = make_getter("a")\ngetter2 = make_getter([1, 2])\nreader1 = make_reader(%d)\nGETTERS = struct(g=make_getter("s"), l=[make_reader(1)])\n' % rng.randint(0, 5)
    pre += "def local_getter():\n    return [getter1(), reader1(), len(BASE_STATE[\"items\"])]\n"
    calls = ["getter1", "getter2", "reader1", "local_getter"]
    lib_src = pre + gen_full.render(lines)
    units = [{"file": "base.star", "src": base_src, "freeze": True},
             {"file": "lib.star", "src": lib_src, "freeze": True, "snapshot": names, "snapshot_calls": calls}]
    nimp = rng.randint(1, 3)
    order = list(range(nimp))
    for k in order:
        sub = rng.sample(names, max(1, len(names) * 2 // 3)) if nimp > 1 else names
        units.append({"file": "imp%d.star" % k, "freeze": True,
                      "src": importer_src(sub, fns if k == 0 else [], "imp%d" % k,
                                          extra="REEXPORT = [%s]\ndef getter():\n    return REEXPORT\n" % ", ".join(sub[:5]))})
    # an importer of the importer: re-exported values and values reached through a function
    units.append({"file": "imp_re.star",
                  "src": 'load("imp0.star", "REEXPORT", "getter")\n' + WALKER + 'attack("re", [("REEXPORT", REEXPORT), ("getter()", getter())])\n'})
    units.append({"file": "imp_calls.star", "src": 'load("lib.star", "getter1", "getter2", "reader1", "local_getter", "GETTERS")\n' +
                  "".join('emit("impcall", "%s", attempt(%s))\n' % (c, c) for c in calls) +
                  'emit("impcall2", attempt(GETTERS.g), attempt(GETTERS.l[0]))\n'})
    # finally re-observe the library's exports from a fresh importer: must still be what was recorded
    units.append({"file": "final.star", "src": 'load("lib.star", %s)\n' % ", ".join('"%s"' % n for n in names) + "".join('snapshot("%s", %s)\n' % (n, n) for n in names)})
    return {"id": "c%d" % i, "cfg": {"dialect": "internal"}, "units": units}, names


def run(tier):
    rep = Report("C04", tier)
    s = seed()
    n = 300 if tier == "quick" else common.tscale(6000)
    cases, meta = [], {}
    for i in range(n):
        c, names = make_case(i, s)
        cases.append(c)
        meta[c["id"]] = names
    flavors = ["dbg"] if tier == "quick" else ["dbg", "rel"]
    st = {"exports": 0, "attempts": 0, "wellformed": 0, "illformed": 0, "containers": 0, "nonmut": 0, "calls": 0, "libs_ok": 0,
          "const_path_attempts": 0, "const_path_observations": 0}
    distinct = set()
    samples = []
    for flavor in flavors:
        svh = os.path.join(common.build(flavor), "svh")
        batch = common.run_cases(svh, "run", cases, "c04_" + flavor, shards=NCPU, timeout=3000)
        for cr in batch.crashes:
            rep.violation("c04:" + common.crash_signature(cr), "[%s] crash in %s" % (flavor, cr["id"]), {"flavor": flavor, "case": cr["case"], "crash": cr.get("confirm")})
        for inc in batch.inconclusive:
            rep.inconc(inc["why"], inc.get("id"))
        for c in cases:
            evs = batch.events.get(c["id"])
            if evs is None:
                continue
            wit = {"flavor": flavor, "case": c}
            pre, post, final = {}, {}, {}
            lib_failed = False
            for e in evs:
                if e[0] == "r" and e[1] == "lib.star" and e[3] != "ok":
                    lib_failed = True
                if e[0] == "pre":
                    pre[e[1]] = e[2:]
                elif e[0] == "post":
                    post[e[1]] = e[2:]
                elif e[0] == "snap":
                    final.setdefault(e[1], []).append(e[2:])
                elif e[0] == "panic":
                    if common.is_oom_text(e[1]):
                        rep.inconc("allocation failure", c["id"])
                    else:
                        rep.violation("c04:panic:" + e[1][:80], "[%s] %s panic: %s" % (flavor, c["id"], e[1]), wit)
                elif e[0] == "freeze_err":
                    rep.violation("c04:freeze-error", "[%s] %s: freezing failed: %s" % (flavor, c["id"], e[2][:200]), wit)
            if lib_failed:
                rep.inconc("library module failed to evaluate (generator)", c["id"])
                continue
            st["libs_ok"] += 1
            # (a) conservation across freeze
            for name, p in pre.items():
                st["exports"] += 1
                q = post.get(name)
                if q is None:
                    rep.violation("c04:export-lost", "[%s] %s: export %s missing after freeze" % (flavor, c["id"], name), wit)
                    continue
                labels = ["encoding", "hash", "str", "repr"]
                for lab, a, b in zip(labels, p, q):
                    if a != b:
                        rep.violation("c04:freeze-changed:%s:%s" % (lab, _ty(p[0])), "[%s] %s: %s of export %s changed by freezing: %s -> %s" % (
                            flavor, c["id"], lab, name, json.dumps(a)[:200], json.dumps(b)[:200]), wit)
                        break
                distinct.add(json.dumps(p[0])[:300])
            # calls of exported closures: before freeze == after freeze == from an importer
            precall, postcall = {}, {}
            for e in evs:
                if e[0] == "precall":
                    precall[e[1]] = e[2:]
                elif e[0] == "postcall":
                    postcall[e[1]] = e[2:]
            for name, p in precall.items():
                st["calls"] += 1
                q = postcall.get(name)
                if q != p:
                    rep.violation("c04:call-result-changed-by-freeze", "[%s] %s: calling exported %s() gave %s before the module was frozen and %s after" % (
                        flavor, c["id"], name, json.dumps(p)[:200], json.dumps(q)[:200]), wit)
            for e in evs:
                if e[0] == "e" and e[1] == "simpcall":
                    name = e[2][1:]
                    p = precall.get(name)
                    if p and p[0] == "ok" and e[3] != ["t", "sok", p[1]]:
                        rep.violation("c04:call-result-differs-in-importer", "[%s] %s: %s() called from an importing module gives %s, before freezing it gave %s" % (
                            flavor, c["id"], name, json.dumps(e[3])[:200], json.dumps(p[1])[:200]), wit)
            # (b)/(c) attempts
            for e in evs:
                if e[0] == "r" and e[3] == "err" and e[1] != "lib.star":
                    rep.violation("c04:importer-failed:" + e[4].get("msg", "")[:50], "[%s] %s: importing module %s failed: %s" % (flavor, c["id"], e[1], e[4].get("msg")), wit)
                if e[0] != "e":
                    continue
                tag = e[1][1:] if isinstance(e[1], str) else ""
                if tag == "found":
                    st["containers"] += int(e[3][1:])
                elif tag == "att":
                    _, _, imp, idx, kind, mname, ctl, changed, res, unchanged, msg = e
                    st["attempts"] += 1
                    kind, mname = kind[1:], mname[1:]
                    if ctl != "sok" or changed is not True:
                        st["illformed"] += 1  # the operation is not a mutation on this value (e.g. pop on empty): discarded
                        if res == "sok" and unchanged is not True:
                            rep.violation("c04:mutated:%s:%s" % (kind, mname), "[%s] %s: %s.%s changed a frozen container" % (flavor, c["id"], kind, mname), wit)
                        continue
                    st["wellformed"] += 1
                    if res != "serr":
                        rep.violation("c04:mutation-succeeded:%s:%s" % (kind, mname), "[%s] %s (%s): %s on a frozen %s reachable from a loaded value succeeded" % (
                            flavor, c["id"], imp[1:], mname, kind), wit)
                    elif unchanged is not True:
                        rep.violation("c04:failed-mutation-changed:%s:%s" % (kind, mname), "[%s] %s: failed %s changed the frozen %s" % (flavor, c["id"], mname, kind), wit)
                elif tag == "noop":
                    _, _, imp, idx, kind, mname, ctl, res = e
                    if ctl == "sok":
                        st["noop_attempts"] = st.get("noop_attempts", 0) + 1
                        if res != "serr":
                            rep.violation("c04:noop-mutation-accepted:%s:%s" % (kind[1:], mname[1:]), "[%s] %s (%s): %s on a frozen %s reachable from a loaded value did not fail (it changes nothing, but it is a mutating operation)" % (
                                flavor, c["id"], imp[1:], mname[1:], kind[1:]), wit)
                elif tag == "nonmut":
                    st["nonmut"] += 1
                    if "..." in json.dumps(e[5]) or "..." in json.dumps(e[6]) or '"ref"' in json.dumps(e[5]):
                        continue  # self-containing value: its shallow copy is legitimately a different shape
                    if e[5] != e[6]:
                        rep.violation("c04:nonmutating-differs:%s" % e[4][1:], "[%s] %s: non-mutating operations on a frozen %s differ from the same on its unfrozen copy: %s vs %s" % (
                            flavor, c["id"], e[4][1:], json.dumps(e[5])[:300], json.dumps(e[6])[:300]), wit)
                elif tag == "call":
                    st["calls"] += 1
            # (d) exports unchanged after everything
            for name, snaps in final.items():
                q = post.get(name)
                for sn in snaps:
                    if q is not None and sn != q:
                        rep.violation("c04:changed-after-attempts:%s" % _ty(q[0]), "[%s] %s: export %s no longer has its frozen content: %s -> %s" % (
                            flavor, c["id"], name, json.dumps(q)[:200], json.dumps(sn)[:200]), wit)
                        break
            if len(samples) < 2 and len(pre) > 5:
                samples.append({"id": c["id"], "exports": sorted(pre)[:12], "lib_head": c["units"][0]["src"][:700]})
        # round 2: literal (constant-foldable) paths
        cases2, expects = [], {}
        for c in cases:
            evs = batch.events.get(c["id"])
            if evs is None or any(e[0] == "r" and e[1] == "lib.star" and e[3] != "ok" for e in evs):
                continue
            c2, expect = const_path_case(c, evs, random.Random("%d/c04lit/%s" % (s, c["id"])))
            if c2:
                cases2.append(c2)
                expects[c2["id"]] = expect
        batch2 = common.run_cases(svh, "run", cases2, "c04lit_" + flavor, shards=NCPU, timeout=3000)
        for cr in batch2.crashes:
            rep.violation("c04:" + common.crash_signature(cr), "[%s] crash in %s" % (flavor, cr["id"]), {"flavor": flavor, "case": cr["case"], "crash": cr.get("confirm")})
        for inc in batch2.inconclusive:
            rep.inconc(inc["why"], inc.get("id"))
        for c2 in cases2:
            if c2["id"] in batch2.events:
                check_const_paths(rep, flavor, c2, expects[c2["id"]], batch2.events[c2["id"]], st)
        if len(samples) < 3 and cases2:
            samples.append({"id": cases2[0]["id"], "literal_path_importer_tail": cases2[0]["units"][-1]["src"][-600:]})
    rep.coverage = {
        "evaluations": st["attempts"] + st["exports"] + st["nonmut"] + st["const_path_attempts"] + st["const_path_observations"],
        "distinct_nontrivial": len(distinct),
        "rule": "evaluation = one mutation attempt on a frozen container (with its control on an unfrozen copy), one export compared across freeze, or one non-mutating operation set compared frozen vs copy; "
                "distinct_nontrivial = distinct export encodings (truncated to 300 chars) conserved across freeze",
        "samples": samples,
        "libraries": st["libs_ok"],
        "exports_compared_across_freeze": st["exports"],
        "containers_reached_by_walker": st["containers"],
        "mutation_attempts": st["attempts"],
        "attempts_well_formed_by_control": st["wellformed"],
        "attempts_discarded_as_ill_formed": st["illformed"],
        "nonmutating_comparisons": st["nonmut"],
        "exported_function_calls": st["calls"],
        "noop_mutation_attempts": st.get("noop_attempts", 0),
        "literal_path_mutation_attempts": st["const_path_attempts"],
        "literal_path_observations": st["const_path_observations"],
        "flavors": flavors,
    }
    rep.assumptions = ["a mutation attempt counts only if the same operation succeeds and changes an unfrozen shallow copy (control)",
                       "the walker reaches containers through lists, tuples, dict keys/values, struct and record fields up to depth 4"]
    rep.finish(sanity_ok=st["wellformed"] > n and st["exports"] > n and st["const_path_attempts"] > n, sanity_msg="too few attempts / exports")


def _ty(enc):
    if isinstance(enc, list) and enc:
        return str(enc[0]) if enc[0] != "o" else str(enc[1])
    return type(enc).__name__


def replay(rep):
    w = rep["witness"]
    svh = os.path.join(common.build(w.get("flavor", "dbg")), "svh")
    batch = common.run_cases(svh, "run", [w["case"]], "c04_replay", shards=1)
    for u in w["case"]["units"][:1]:
        print(u["src"])
    evs = batch.events.get(w["case"]["id"], [])
    for e in evs:
        if e[0] in ("pre", "post", "snap", "r") or (e[0] == "e" and e[1] in ("satt",) and (e[7] != "serr")):
            print(json.dumps(e)[:400])
    return 1
