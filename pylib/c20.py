"""C20: frozen modules are safe to share: concurrent use equals sequential use.
Monitors: (a) per-thread transcripts / observations of own and received frozen modules must equal the
sequential run of the same workload; (b) ThreadSanitizer reports with a frame in /repo; (c) ASan; (d) crashes."""
import json
import os
import random
import re
import glob

import common
import gen_full
from common import NCPU, Report, log, seed


def make_case(i, s, tier):
    rng = random.Random("%d/c20/%d" % (s, i))
    libs = []
    shared = []
    for k in range(rng.randint(1, 3)):
        lines, vs, fs = gen_full.gen_library(rng, "s%d" % k, max_stmts=rng.choice([15, 30]))
        shared.append({"file": "s%d.star" % k, "src": gen_full.render(lines)})
        libs.append(("s%d.star" % k, vs, fs))
    workers = []
    for w in range(rng.randint(2, 6)):
        lines = gen_full.gen_client(rng, libs, max_stmts=rng.choice([10, 25]), inject_fail=0.2)
        workers.append({"file": "w%d.star" % w, "src": gen_full.render(lines)})
    return {"id": "t%d" % i, "shared": shared, "workers": workers, "threads": rng.choice([2, 4, 8, 16]), "iters": rng.choice([2, 4, 6]),
            "first_use": rng.random() < 0.25, "send": rng.random() < 0.8, "jitter_seed": rng.randint(1, 1 << 30)}


def judge(rep, c, evs, flavor, stats):
    seq = {}
    seq_obs = {}
    for e in evs:
        if e[0] == "seq":
            seq[e[1]] = e[2]
            seq_obs[e[1]] = e[3]
        if e[0] == "panic" and common.is_oom_text(str(e[1])):
            rep.inconc("allocation failure", c["id"])
            return
        if e[0] == "panic":
            rep.violation("c20:panic:" + str(e[1])[:80], "[%s] %s: %s" % (flavor, c["id"], e[1]), {"flavor": flavor, "case": c})
            return
    for e in evs:
        if e[0] == "thr":
            t, it, w, tr = e[1:5]
            stats["thread_runs"] += 1
            if tr != seq.get(w):
                k = 0
                ref = seq.get(w) or []
                while k < min(len(tr), len(ref)) and tr[k] == ref[k]:
                    k += 1
                rep.violation("c20:transcript", "[%s] %s: thread %d iteration %d worker %d differs from the sequential run at event %d: %s vs %s" % (
                    flavor, c["id"], t, it, w, k, json.dumps(tr[k] if k < len(tr) else None)[:200], json.dumps(ref[k] if k < len(ref) else None)[:200]),
                    {"flavor": flavor, "case": c})
                return
        elif e[0] in ("own_fm", "recv_fm"):
            w = e[3] if e[0] == "own_fm" else e[2]
            obs = e[4] if e[0] == "own_fm" else e[3]
            stats["fm_observations"] += 1
            if e[0] == "recv_fm":
                stats["cross_thread_modules"] += 1
            if obs != seq_obs.get(w):
                rep.violation("c20:frozen-module-content:" + e[0], "[%s] %s: %s of worker %d differs from the sequentially built module" % (flavor, c["id"], e[0], w),
                              {"flavor": flavor, "case": c})
                return
    stats["cases"] += 1


def tsan_reports(logdir):
    """Parse ThreadSanitizer logs; returns list of (signature, text) for reports with a frame in /repo."""
    out = []
    for f in glob.glob(os.path.join(logdir, "tsan.*")):
        txt = open(f, errors="replace").read()
        for block in txt.split("=================="):
            if "WARNING: ThreadSanitizer" not in block:
                continue
            frames = re.findall(r"#\d+ (\S+) (/repo/\S+?):(\d+)", block)
            if not frames:
                continue  # entirely in std / harness
            kind = re.search(r"WARNING: ThreadSanitizer: ([^\(\n]+)", block).group(1).strip()
            # dedupe by the first in-repo frame of each of the two stacks (line numbers stripped)
            stacks = block.split("Previous ")
            firsts = []
            for st in stacks[:2]:
                m = re.search(r"#\d+ (\S+) (/repo/\S+?):\d+", st)
                if m:
                    firsts.append("%s@%s" % (m.group(1)[:60], m.group(2).replace("/repo/", "")))
            out.append(("c20:tsan:%s:%s" % (kind, "|".join(sorted(set(firsts)))), block[:3000]))
    return out


def run(tier):
    rep = Report("C20", tier)
    s = seed()
    n = 150 if tier == "quick" else common.tscale(2000)
    cases = [make_case(i, s, tier) for i in range(n)]
    # allocator storm: tiny frozen heaps built back to back on producer threads (consecutive heaps share chunks) and
    # dropped on consumer threads while the producer keeps building; a sample is kept and re-read at the end
    storms = [{"id": "storm%d" % k, "storm": True, "pairs": 3 + (k % 2) * 3, "n": 30000 if tier == "quick" else 120000} for k in range(4 if tier == "quick" else 16)]
    stats = {"cases": 0, "thread_runs": 0, "fm_observations": 0, "cross_thread_modules": 0}
    flavors = [("dbg", n)] if tier == "quick" else [("dbg", n), ("rel", n), ("asan", 200), ("tsan", 200)]
    tsan_seen = 0
    used = []
    for flavor, nf in flavors:
        try:
            svh = os.path.join(common.build(flavor), "svh")
        except common.BuildError as e:
            if flavor == "dbg":
                raise
            rep.inconc("flavor %s unavailable" % flavor, str(e)[-400:])
            continue
        used.append(flavor)
        san = flavor in ("asan", "tsan")
        opts = {"poison": "0" if flavor == "tsan" else "1", "quarantine": "0" if san else str(256 << 20)}
        env = None
        name = "c20_" + flavor
        reps = 1
        if flavor == "asan":
            env = {"ASAN_OPTIONS": "abort_on_error=1:detect_leaks=0"}
        if flavor == "tsan":
            logdir = os.path.join(common.WORK, "c20_tsanlogs")
            import shutil
            shutil.rmtree(logdir, ignore_errors=True)
            os.makedirs(logdir)
            env = {"TSAN_OPTIONS": "halt_on_error=0:exitcode=0:log_path=%s/tsan:second_deadlock_stack=1" % logdir}
            reps = 3  # race reports vary from run to run
        for rnd in range(reps):
            batch = common.run_cases(svh, "threads", cases[:nf], name, opts=opts, shards=max(2, NCPU // 4), timeout=3000, env_extra=env, asan_like=san, mem_gb=16)
            for cr in batch.crashes:
                rep.violation("c20:" + common.crash_signature(cr), "[%s] crash in %s: %s" % (flavor, cr["id"], ((cr.get("confirm") or {}).get("stderr") or "")[-400:]),
                              {"flavor": flavor, "case": cr["case"], "opts": opts, "crash": cr.get("confirm")})
            for inc in batch.inconclusive:
                rep.inconc(inc["why"], inc.get("id"))
            for c in cases[:nf]:
                if c["id"] in batch.events:
                    judge(rep, c, batch.events[c["id"]], flavor, stats)
            sb = common.run_cases(svh, "threads", storms if not san else storms[:2], name + "_storm", opts=opts, shards=2, timeout=3000, env_extra=env, asan_like=san, mem_gb=24, per_case_timeout=900)
            for cr in sb.crashes:
                rep.violation("c20:storm:" + common.crash_signature(cr), "[%s] crash in allocator storm %s: %s" % (flavor, cr["id"], ((cr.get("confirm") or {}).get("stderr") or "")[-400:]),
                              {"flavor": flavor, "case": cr["case"], "opts": opts, "crash": cr.get("confirm")})
            for inc in sb.inconclusive:
                rep.inconc(inc["why"], inc.get("id"))
            for c in storms:
                for e in sb.events.get(c["id"], []):
                    if e[0] == "panic":
                        if common.is_oom_text(str(e[1])):
                            rep.inconc("allocation failure", c["id"])
                        else:
                            rep.violation("c20:storm:panic:" + re.sub(r"[0-9]+", "N", str(e[1]))[:80], "[%s] %s: %s" % (flavor, c["id"], e[1]), {"flavor": flavor, "case": c, "opts": opts})
                    elif e[0] == "storm_producer":
                        stats["storm_kept"] = stats.get("storm_kept", 0) + e[1]
                        if e[2]:
                            rep.violation("c20:storm:content", "[%s] %s: %d kept frozen values changed while other heaps were dropped on another thread: %s" % (flavor, c["id"], len(e[2]), json.dumps(e[2][:2])[:300]),
                                          {"flavor": flavor, "case": c, "opts": opts})
                    elif e[0] == "storm_consumer":
                        stats["storm_dropped"] = stats.get("storm_dropped", 0) + e[1]
            if flavor == "tsan":
                for sig, text in tsan_reports(logdir):
                    tsan_seen += 1
                    rep.violation(sig, "[tsan] %s" % text.strip().splitlines()[0], {"flavor": "tsan", "report": text})
    rep.coverage = {
        "evaluations": stats["thread_runs"],
        "distinct_nontrivial": stats["cases"],
        "rule": "evaluation = one worker program executed on one thread concurrently with the others and compared with its sequential transcript; "
                "distinct_nontrivial = multi-threaded cases (2..16 threads, shared frozen modules and/or first-use of globals) in which every comparison was made",
        "samples": [{"id": c["id"], "threads": c["threads"], "iters": c["iters"], "first_use": c["first_use"], "send": c["send"],
                     "shared": [u["file"] for u in c["shared"]], "worker0_head": c["workers"][0]["src"][:600]} for c in cases[:2]],
        "frozen_module_observations": stats["fm_observations"],
        "modules_used_and_dropped_on_another_thread": stats["cross_thread_modules"],
        "first_use_cases": sum(1 for c in cases if c["first_use"]),
        "storm_heaps_dropped_on_another_thread": stats.get("storm_dropped", 0),
        "storm_values_kept_and_reread": stats.get("storm_kept", 0),
        "tsan_reports_in_repo_frames": tsan_seen,
        "flavors": used,
    }
    rep.assumptions = ["interleavings are those the OS scheduler produces under seeded jitter; TSan adds happens-before analysis for the schedules seen",
                       "sanitizer reports entirely inside std or the harness are not counted"]
    rep.finish(sanity_ok=stats["thread_runs"] > n and stats["cross_thread_modules"] > 0, sanity_msg="no concurrent runs compared")


def replay(rep):
    w = rep["witness"]
    if "case" not in w:
        print(w.get("report", "")[:3000])
        return 1
    svh = os.path.join(common.build(w.get("flavor", "dbg") if w.get("flavor") in ("dbg", "rel") else "dbg"), "svh")
    r2 = Report("C20", "replay")
    st = {"cases": 0, "thread_runs": 0, "fm_observations": 0, "cross_thread_modules": 0}
    for _ in range(5):
        batch = common.run_cases(svh, "threads", [w["case"]], "c20_replay", opts={"poison": "1"}, shards=1)
        if batch.crashes:
            print("crash", batch.crashes[0].get("confirm"))
            return 1
        judge(r2, w["case"], batch.events.get(w["case"]["id"], []), "dbg", st)
    for v in r2.violations:
        print(v["what"])
    return 1 if r2.violations else 0
