"""Reference execution of shared-core programs under CPython (the reference interpreter for C01),
plus the canonical encoding of Python values (mirror of harness/svh/src/canon.rs)."""

import sys
import traceback


def canon(v, sharing=False, _seen=None, _stack=None):
    """Canonical JSON-able encoding (sharing-insensitive unless asked)."""
    if _seen is None:
        _seen, _stack = {}, set()
    if v is None:
        return None
    if v is True or v is False:
        return v
    if isinstance(v, int):
        return "i%d" % v
    if isinstance(v, str):
        return "s" + v
    if isinstance(v, float):
        import struct
        return "f%016x" % struct.unpack(">Q", struct.pack(">d", v))[0]
    if isinstance(v, tuple):
        return ["t"] + [canon(x, sharing, _seen, _stack) for x in v]
    if isinstance(v, (list, dict)):
        i = id(v)
        if i in _seen and (i in _stack or sharing):
            return ["ref", _seen[i]]
        if i not in _seen:
            _seen[i] = len(_seen)
        _stack.add(i)
        if isinstance(v, list):
            out = ["l"] + [canon(x, sharing, _seen, _stack) for x in v]
        else:
            out = ["d"] + [[canon(k, sharing, _seen, _stack), canon(x, sharing, _seen, _stack)] for k, x in v.items()]
        _stack.discard(i)
        return out
    if callable(v):
        return ["o", "function", getattr(v, "__name__", "?")]
    return ["o", type(v).__name__, repr(v)]


class StarlarkFail(Exception):
    pass


def classify(e):
    if isinstance(e, StarlarkFail):
        return "fail"
    if isinstance(e, ZeroDivisionError):
        return "zero"
    if isinstance(e, IndexError):
        return "index"
    if isinstance(e, KeyError):
        return "key"
    if isinstance(e, (UnboundLocalError, NameError)):
        return "unbound"
    if isinstance(e, (TypeError, AttributeError)):
        return "type"
    if isinstance(e, ValueError):
        return "value"
    if isinstance(e, RecursionError):
        return "recursion"
    return "other:" + type(e).__name__


def run_python(src, filename="p.star", max_events=20000, max_size=400000):
    """Execute src; returns dict(events=[...], outcome=("ok",) | ("err", class, line, n_events_before))."""
    events = []
    budget = [max_size]

    def emit(*args):
        seen, stack = {}, set()
        ev = ["e"] + [canon(a, False, seen, stack) for a in args]
        events.append(ev)
        budget[0] -= 1 + len(seen) * 4 + sum(len(x) if isinstance(x, (str, list)) else 1 for x in ev)
        if len(events) > max_events or budget[0] < 0:
            raise MemoryError("transcript too large to be a useful test")

    def fail(*args):
        raise StarlarkFail(" ".join(str(a) for a in args))

    def _print(*args):
        events.append(["p", " ".join(str(a) for a in args)])

    env = {"emit": emit, "fail": fail, "print": _print, "__name__": "__star__"}
    old = sys.getrecursionlimit()
    sys.setrecursionlimit(3000)
    try:
        code = compile(src, filename, "exec")
    except SyntaxError as e:
        sys.setrecursionlimit(old)
        return {"events": events, "outcome": ["syntax", e.lineno, str(e)]}
    try:
        exec(code, env)
        out = ["ok"]
    except BaseException as e:  # noqa
        if isinstance(e, (KeyboardInterrupt, SystemExit, MemoryError)) or type(e).__name__ == "_Timeout":
            raise
        tb = traceback.extract_tb(e.__traceback__)
        line = None
        for fr in tb:
            if fr.filename == filename:
                line = fr.lineno
        out = ["err", classify(e), line, len(events), "%s: %s" % (type(e).__name__, str(e)[:120])]
    finally:
        sys.setrecursionlimit(old)
    return {"events": events, "outcome": out}
