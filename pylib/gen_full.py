"""Generator for the full dialect (superset of gen_core): structs, records, enums, sets, floats,
f-strings, repr/str of everything, partial, bound methods, self-containing containers, type annotations.
Used by the Starlark-vs-Starlark equivalence checks (C02, C03, C04, C14, C18, C20)."""

import random

import gen_core
from gen_core import ALL_TYPES, BOOL, DIS, DSI, INT, LI, LLI, LS, MUTABLE, STR, TIS, Gen, Scope, Var

ANY = "any"  # opaque values: only stored, emitted, compared, printed
LA = "list_any"  # list holding anything (may contain itself)
FLT = "float"
SETI = "set_int"


class FullGen(Gen):
    def __init__(self, rng, heap_heavy=False, annotations=True, allow_type_decls=True, **kw):
        kw.setdefault("py_compat", False)
        super().__init__(rng, **kw)
        self.heap_heavy = heap_heavy
        self.annotations = annotations
        self.allow_type_decls = allow_type_decls
        self.nrec = 0
        self.records = []  # (type name, fields)
        self.enums = []

    # annotated functions every program can call (rightly or wrongly typed): run-time type checks of
    # parameters / defaults / results are part of the dialect
    TYPED_PRELUDE = [
        "def typed_fn3(a: int, b: str, c: list[int] = []) -> int: return a + len(b) + len(c)",
        "def typed_fn2(x: int | None, y: dict[str, int] | None = None, *rest: str, **kw: bool) -> tuple[int, ...]: return (x or 0, len(rest) + len(kw) + len(y or {}))",
        "def typed_ret(x) -> str: return x",
    ]
    TYPED_FAILS = [
        "emit(typed_fn3(\"x\", \"y\"))", "emit(typed_fn3(1, 2))", "emit(typed_fn3(\"x\", 2, [1]))", "emit(typed_fn3(1, \"a\", [\"s\"]))", "emit(typed_fn3(None, \"a\", c=[1]))",
        "emit(typed_fn3(1, \"a\", c=(1,)))", "emit(typed_fn3(b=\"a\", a=1.5))", "emit(typed_ret(5))", "emit(typed_ret([\"s\"]))", "emit(typed_fn2(\"1\"))", "emit(typed_fn2(1, {1: 1}))",
        "emit(typed_fn2(1, None, \"a\", 2))", "emit(typed_fn2(1, k=1))", "emit(typed_fn2([], {\"a\": \"b\"}, \"r\", k=True))",
    ]
    # errors whose text lists several offending names
    NAMED_FAILS = [
        "emit(len([1], zz=1, yy=2, xx=3, ww=4))", "emit(type(1, beta=2, alpha=1, **{\"q\": 1, \"p\": 2}))", "emit(repr(1, one=1, two=2, three=3))",
        "emit(typed_fn3(1, \"a\", qq=1, pp=2, oo=3))", "emit(typed_fn3())", "emit(struct(a=1).bb, struct(a=1, ab=2, ba=3).aa)", "emit(hash(\"a\", k3=1, k1=2, k2=3))",
    ]
    TYPED_OK = ["typed_fn3(1, \"ab\")", "typed_fn3(2, \"\", [1, 2])", "typed_fn3(b=\"x\", a=3, c=[])", "typed_fn2(None)", "typed_fn2(4, {\"a\": 1}, \"r\", \"s\", k=True)",
                "typed_fn2(1, None, *[\"a\"], **{\"z\": False})", "typed_ret(\"s\")"]

    def program(self, pre_lines=None, pre_vars=None, pre_fns=None):
        if self.annotations:
            self.FAILS = list(Gen.FAILS) + self.TYPED_FAILS + self.NAMED_FAILS
        lines = super().program(pre_lines=pre_lines, pre_vars=pre_vars, pre_fns=pre_fns)
        if self.annotations:
            pre = []
            for l in self.TYPED_PRELUDE:
                head, body = l.split(": return ", 1)
                pre += [(0, head + ":"), (1, "return " + body)]
            k = len(pre_lines or [])  # after load statements
            lines[k:k] = pre
        return lines

    # ---- extra expressions
    def any_expr(self, sc, d=0):
        r = self.r
        vs = [v for v in sc.all_vars()]
        k = r.randrange(14)
        if k < 4 and vs:
            return self.ch(vs).name
        if k == 4:
            return "struct(a=%s, b=%s)" % (self.expr(sc, self.ch(ALL_TYPES), 2), self.ch(vs).name if vs else "1")
        if k == 5 and self.records:
            name, fields = self.ch(self.records)
            return "%s(%s)" % (name, ", ".join("%s=%s" % (f, self.expr(sc, t, 2)) for f, t in fields))
        if k == 6 and self.enums:
            name, vals = self.ch(self.enums)
            return '%s("%s")' % (name, self.ch(vals))
        if k == 7:
            return "(%s, %s)" % (self.any_expr(sc, d + 1) if d < 2 else "None", self.expr(sc, self.ch([INT, STR]), 2))
        if k == 8:
            return self.float_expr(sc)
        if k == 9:
            return "set(%s)" % self.expr(sc, LI, 2)
        if k == 10:
            return "range(%d, %d)" % (r.randint(-2, 3), r.randint(0, 9))
        if k == 11:
            if self.annotations and self.p(0.4):
                return self.ch(self.TYPED_OK)
            return self.ch(["None", "True", "len", "str", "int"])
        if k == 12:
            return "{%s: %s}" % (self.expr(sc, self.ch([INT, STR, TIS]), 2), self.any_expr(sc, d + 1) if d < 2 else "0")
        return self.expr(sc, self.ch(ALL_TYPES), 2)

    def float_expr(self, sc):
        r = self.r
        k = r.randrange(6)
        if k == 0:
            return self.ch(["0.5", "1.5", "-2.25", "1e10", "3.0", "0.0"])
        if k == 1:
            return "(%s / (abs(%s) + 1))" % (self.expr(sc, INT, 2), self.expr(sc, INT, 2))
        if k == 2:
            return "float(%s)" % self.expr(sc, INT, 2)
        if k == 3:
            return "(%s * 0.5)" % self.expr(sc, INT, 2)
        if k == 4:
            return "(%s + %s)" % (self.ch(["0.25", "1.0"]), self.expr(sc, INT, 2))
        return "float(%d)" % r.randint(-5, 5)

    def str_extra(self, sc):
        """Starlark-only string forms (quote style, repr, f-strings)."""
        r = self.r
        k = r.randrange(10)
        vs = sc.all_vars()
        if k >= 7:
            # one-argument formatting (specialised by the compiler) of values that may themselves be tuples
            x = self.ch([self.expr(sc, TIS, 2), "(%s,)" % self.expr(sc, INT, 2), "()", "(%s, %s)" % (self.expr(sc, INT, 2), self.expr(sc, STR, 2)),
                         self.ch(vs).name if vs else "(1, 2)", self.expr(sc, self.ch([INT, STR, LI, DSI]), 2), "((1, 2),)", "[(1,)]", "{\"a\": 1}"])
            safe = self.risk == 0  # libraries that must evaluate: only forms that cannot fail
            fmt = self.ch(['"<%s>"', '"%s"', '"a%sb"', '"%s%%"', '"%%%s"', '"<%r>"', '"<%s>"', '"<%s>"'] + ([] if safe else ['"%d"', '"%s %s"']))
            form = self.ch(["(%s %% (%s,))", "(%s %% (%s,))", "%s.format(%s)"] + ([] if safe else ["(%s %% %s)"]))
            if form.endswith(".format(%s)"):
                fmt = self.ch(['"<{}>"', '"{}"', '"a{}b"', '"{0}"', '"{0}{0}"', '"{!r}"', '"{{{}}}"'] + ([] if safe else ['"{}{}"']))
            return form % (fmt, x)
        if k == 0 and vs:
            return "repr(%s)" % self.ch(vs).name
        if k == 1 and vs:
            return "str(%s)" % self.ch(vs).name
        if k == 2 and len(vs) >= 2:
            a, b = self.ch(vs).name, self.ch(vs).name
            return 'f"{%s}|{%s}"' % (a, b)
        if k == 3 and vs:
            return '("%%r:%%s" %% (%s, %s))' % (self.ch(vs).name, self.expr(sc, INT, 2))
        if k == 4 and vs:
            return '"{!r}".format(%s)' % self.ch(vs).name
        if k == 5:
            return "type(%s)" % (self.ch(vs).name if vs else "1")
        return "json.encode(%s)" % self.expr(sc, self.ch([LI, DSI, LS, INT, STR, BOOL]), 2)

    def expr(self, sc, ty, d=0):
        if ty == STR and d < self.max_depth and self.p(0.12):
            return self.str_extra(sc)
        if ty == ANY:
            return self.any_expr(sc, d)
        if ty == LA:
            vs = self.vars_of(sc, LA)
            if vs and self.p(0.6):
                return self.ch(vs).name
            return "[%s]" % ", ".join(self.any_expr(sc, 1) for _ in range(self.r.randint(0, 3)))
        if ty == FLT:
            return self.float_expr(sc)
        if ty == BOOL and d < self.max_depth and self.p(0.18):
            return self.mixed_cmp(sc, d)
        return super().expr(sc, ty, d)

    def mixed_cmp(self, sc, d):
        """Comparisons whose one operand is a constant the compiler can see and whose other operand is a
        run-time value of another representation (integral float vs int literal, anything vs None/str/bool
        literal, type(x) == "..."): the specialised comparison paths."""
        r = self.r
        k = r.randrange(9)
        vs = sc.all_vars()
        intlit = str(r.choice([0, 1, 2, 3, -1, 4, 5, 7, 10, -2]))
        if k == 0:
            a, b = self.float_expr(sc), intlit
        elif k == 1:
            a, b = "float(%s)" % self.expr(sc, INT, d + 2), intlit
        elif k == 2:
            a, b = "(%s / 2)" % self.expr(sc, INT, d + 2), intlit
        elif k == 3:
            a, b = self.expr(sc, INT, d + 2), self.ch(["1.0", "2.0", "0.0", "-1.0", "3.0", "0.5"])
        elif k == 4 and vs:
            a, b = self.ch(vs).name, self.ch(["None", "0", "1", '""', '"a"', "True", "False", "()", "[]", "{}", "1.0", "(1, 2)"])
        elif k == 5 and vs:
            return "(type(%s) %s %s)" % (self.ch(vs).name, self.ch(["==", "!="]), self.ch(['"int"', '"string"', '"list"', '"float"', '"dict"', '"tuple"', '"bool"']))
        elif k == 6 and vs:
            return "(%s %s %s)" % (self.ch(vs).name, self.ch(["in", "not in"]), self.ch(["[1, 2.0, \"a\", None]", "(0, 1.0, True, \"\")", "[[], (), 3.0]"]))
        elif k == 7:
            return "(%s %s %s)" % (self.float_expr(sc), self.ch(["<", "<=", ">", ">="]), self.ch([intlit, "0.5", "2.0"]))
        else:
            a, b = self.expr(sc, STR, d + 2), self.ch(['""', '"a"', '"ab"', '"0"', '"12"', '"hello"'])
        if self.p(0.5):
            a, b = b, a
        return "(%s %s %s)" % (a, self.ch(["==", "==", "!="]), b)

    # ---- extra statements
    def stmt(self, sc, indent):
        r = self.r
        if not self.p(0.35 if not self.heap_heavy else 0.55):
            return super().stmt(sc, indent)
        self.nstmts += 1
        k = r.randrange(16)
        top = indent == 0
        if self.heap_heavy and self.p(0.12):
            # the embedder re-enters eval_module from a native while these frames are running: several
            # top-level statements (= GC safepoints) that allocate; locals of the running defs live across them
            self.nnested = getattr(self, "nnested", 0) + 1
            n = self.nnested
            code = "NE%d = [str(i) * 3 for i in range(%d)]\\nNE%d_d = {\\\"k\\\": NE%d, \\\"n\\\": %d}\\nNE%d = None\\nlen(NE%d_d)\\n" % (n, r.randint(5, 60), n, n, n, n, n)
            vs = [v for v in sc.all_vars()]
            before = self.ch(vs).name if vs else "1"
            self.emit_line(indent, "emit(eval_here(\"%s\"), %s)" % (code, before))
            return
        if k == 0 and top and self.allow_type_decls and len(self.records) < 3:
            self.nrec += 1
            name = "R%d" % self.nrec
            fields = [("x", INT), ("y", self.ch([LI, STR, DSI]))]
            tyname = {INT: "int", LI: "list", STR: "str", DSI: "dict"}
            self.emit_line(indent, "%s = record(x=int, y=%s)" % (name, self.ch([tyname[fields[1][1]], "typing.Any", "field(%s, %s)" % (tyname[fields[1][1]], self.lit(fields[1][1]))])))
            self.records.append((name, fields))
            return
        if k == 1 and top and self.allow_type_decls and len(self.enums) < 2:
            name = "E%d" % (len(self.enums) + 1)
            vals = ["a", "b", "c"]
            self.emit_line(indent, '%s = enum("a", "b", "c")' % name)
            self.enums.append((name, vals))
            return
        if k in (2, 3, 4):
            name = self.fresh_var()
            ex = self.any_expr(sc)
            self.emit_line(indent, "%s = %s" % (name, ex))
            g = self.fresh_group()
            for gg in self.mentioned(sc, ex):
                self.union(g, gg)
            sc.vars.append(Var(name, ANY, g))
            if self.p(0.6):
                self.emit_line(indent, "emit(%s)" % name)
            return
        if k in (5, 6):
            # list of anything, aliasing whatever it mentions
            name = self.fresh_var()
            ex = self.expr(sc, LA)
            self.emit_line(indent, "%s = %s" % (name, ex))
            g = self.fresh_group()
            for gg in self.mentioned(sc, ex):
                self.union(g, gg)
            sc.vars.append(Var(name, LA, g))
            return
        if k in (7, 8, 9):
            cands = [v for v in self.vars_of(sc, LA) if not self.is_locked(sc, v.group)]
            if cands:
                v = self.ch(cands)
                if self.mutate_ok(sc, v):
                    kk = r.randrange(5)
                    if kk == 0:
                        self.emit_line(indent, "%s.append(%s)" % (v.name, v.name))  # self-containing
                    elif kk == 1:
                        ex = self.any_expr(sc)
                        for gg in self.mentioned(sc, ex):
                            self.union(v.group, gg)
                        self.emit_line(indent, "%s.append(%s)" % (v.name, ex))
                    elif kk == 2:
                        self.emit_line(indent, "if %s:" % v.name)
                        self.emit_line(indent + 1, "%s.pop()" % v.name)
                    elif kk == 3:
                        self.emit_line(indent, "%s.insert(0, {\"self\": %s})" % (v.name, v.name))
                    else:
                        self.emit_line(indent, "%s.extend([%s, (%s,)])" % (v.name, v.name, v.name))
                    self.emit_line(indent, "emit(%s)" % v.name)
                    return
        if k == 10:
            # dict containing itself / aliasing a list
            name = self.fresh_var()
            vs = self.vars_of(sc, LI)
            al = self.ch(vs).name if vs else "[]"
            self.emit_line(indent, '%s = {"l": %s, "t": (%s, 1)}' % (name, al, al))
            g = self.fresh_group()
            for gg in self.mentioned(sc, al):
                self.union(g, gg)
            sc.vars.append(Var(name, ANY, g))
            self.emit_line(indent, '%s["self"] = %s' % (name, name))
            self.emit_line(indent, "emit(%s)" % name)
            return
        if k == 11:
            # bound method stored and called later
            cands = [v for v in self.vars_of(sc, LI) if not self.is_locked(sc, v.group)]
            if cands:
                v = self.ch(cands)
                if self.mutate_ok(sc, v):
                    m = self.fresh_var("m")
                    self.emit_line(indent, "%s = %s.append" % (m, v.name))
                    self.emit_line(indent, "%s(%s)" % (m, self.expr(sc, INT, 2)))
                    self.emit_line(indent, "emit(%s, %s)" % (v.name, m))
                    return
        if k == 12 and self.p(0.5):
            # partial with keyword names computed at run time (the names are heap strings held by the partial),
            # created, left alone for a statement, then called through a **kwargs callee
            self.nkw = getattr(self, "nkw", 0) + 1
            n = self.nkw
            vs = [v for v in sc.all_vars()]
            x = self.ch(vs).name if vs else "1"
            self.emit_line(indent, "def kwf%d(*a, **k):" % n)
            self.emit_line(indent + 1, "return [a, k, sorted(k.keys())]")
            self.emit_line(indent, "pk%d = partial(kwf%d, %s, **{\"_\".join([\"k\", str(len(str(%s)))]): %s, \"s%d\".upper(): [%s]})" % (n, n, self.expr(sc, INT, 2), x, x, n, x))
            self.emit_line(indent, "emit(len(repr(pk%d)))" % n)
            self.emit_line(indent, "emit(pk%d(%s, z=%s), pk%d)" % (n, self.expr(sc, INT, 2), self.expr(sc, STR, 2), n))
            return
        if k == 12:
            fns = [f for f in sc.all_fns() if not f.mut_params and not f.mut_groups and f.params and not f.params[0][2]]
            if fns:
                f = self.ch(fns)
                pn = self.fresh_var("pf")
                self.emit_line(indent, "%s = partial(%s, %s)" % (pn, f.name, self.expr(sc, f.params[0][1], 2)))
                rest = ", ".join(self.expr(sc, pt, 2) for (_, pt, hd) in f.params[1:] if not hd)
                self.emit_line(indent, "emit(%s(%s), %s)" % (pn, rest, pn))
                return
        if k == 13:
            # set operations
            name = self.fresh_var()
            self.emit_line(indent, "%s = set(%s)" % (name, self.expr(sc, LI, 2)))
            sc.vars.append(Var(name, ANY, self.fresh_group()))
            self.emit_line(indent, "%s.add(%s)" % (name, self.expr(sc, INT, 2)))
            self.emit_line(indent, "emit(%s, %s | set(%s), %s in %s)" % (name, name, self.expr(sc, LI, 2), self.expr(sc, INT, 2), name))
            return
        if k == 14:
            self.emit_line(indent, "emit(%s)" % self.str_extra(sc))
            return
        # rebinding to create garbage
        vs = [v for v in sc.all_vars() if v.ty in MUTABLE and self.is_own(sc, v) and not v.const]
        if vs:
            v = self.ch(vs)
            ex = self.expr(sc, v.ty)
            g = self.fresh_group()
            for gg in self.mentioned(sc, ex):
                self.union(g, gg)
            v.group = g
            if (sc.loop_depth > 0 or sc.fn_scope() is not None) and v.ty in (LI, LS, LLI):
                ex = "(%s)[:8]" % ex  # rebinding inside loops must not grow geometrically
            self.emit_line(indent, "%s = %s" % (v.name, ex))
            self.emit_line(indent, "emit(%s)" % v.name)
            return
        return super().stmt(sc, indent)

    def def_stmt(self, sc, indent):
        start = len(self.lines)
        super().def_stmt(sc, indent)
        if self.annotations and self.p(0.5):
            # add type annotations to the header just generated (types are those the generator tracked)
            ind, text = self.lines[start]
            f = sc.fns[-1] if sc.fns else None
            if f is not None and text.startswith("def ") and "fuel" not in text:
                tyname = {INT: "int", STR: "str", BOOL: "bool", LI: "list[int]", LS: "list[str]", DSI: "dict[str, int]", DIS: "dict[int, str]",
                          TIS: "tuple", LLI: "list[list[int]]"}
                head, rest = text.split("(", 1)
                params, tail = rest.rsplit(")", 1)
                if params.strip():
                    parts = self._split_params(params)
                    new = []
                    for part, (pn, pt, hd) in zip(parts, f.params):
                        if "=" in part:
                            nm, dv = part.split("=", 1)
                            new.append("%s: %s = %s" % (nm.strip(), tyname.get(pt, "typing.Any"), dv.strip()))
                        else:
                            new.append("%s: %s" % (part.strip(), tyname.get(pt, "typing.Any")))
                    params = ", ".join(new)
                self.lines[start] = (ind, "%s(%s) -> %s:" % (head, params, tyname.get(f.ret, "typing.Any")))

    @staticmethod
    def _split_params(params):
        out, depth, cur, q = [], 0, "", None
        for c in params:
            if q:
                cur += c
                if c == q and not cur.endswith("\\" + q):
                    q = None
                continue
            if c in "\"'":
                q = c
                cur += c
                continue
            if c in "([{":
                depth += 1
            if c in ")]}":
                depth -= 1
            if c == "," and depth == 0:
                out.append(cur)
                cur = ""
            else:
                cur += c
        if cur.strip():
            out.append(cur)
        return out


def gen_program(rng, **kw):
    g = FullGen(rng, **kw)
    return g.program()


def gen_library(rng, name, **kw):
    """A module meant to be frozen and loaded: returns (lines, exported vars, exported pure fns)."""
    kw.setdefault("inject_fail", 0.0)
    kw.setdefault("risk", 0.0)
    g = FullGen(rng, **kw)
    lines = g.program()
    sc = g.top_scope
    vars_ = [v for v in sc.vars if v.ty in ALL_TYPES and not v.name.startswith("_")]
    fns = [f for f in sc.fns if not f.mut_params and not f.mut_groups and f.name != "undefined_fn_arity"]
    return lines, vars_, fns


def gen_client(rng, libs, **kw):
    """A program that loads symbols from libraries [(file, vars, fns)] and uses them."""
    pre_lines, pre_vars, pre_fns = [], [], []
    for li, (file, vars_, fns) in enumerate(libs):
        vs = rng.sample(vars_, min(len(vars_), rng.randint(1, 5))) if vars_ else []
        fs = rng.sample(fns, min(len(fns), rng.randint(0, 3))) if fns else []
        if not vs and not fs:
            continue
        binds = []
        for v in vs:
            local = "L%d_%s" % (li, v.name)
            binds.append('%s="%s"' % (local, v.name))
            pre_vars.append(Var(local, v.ty, v.group))
        for f in fs:
            local = "L%d_%s" % (li, f.name)
            binds.append('%s="%s"' % (local, f.name))
            nf = gen_core.Fn(local, f.params, f.ret, [], set())
            pre_fns.append(nf)
        pre_lines.append('load("%s", %s)' % (file, ", ".join(binds)))
    g = FullGen(rng, **kw)
    return g.program(pre_lines=pre_lines, pre_vars=pre_vars, pre_fns=pre_fns)


render = gen_core.render

if __name__ == "__main__":
    import sys
    rng = random.Random(int(sys.argv[1]) if len(sys.argv) > 1 else 1)
    sys.stdout.write(render(gen_program(rng, heap_heavy=True), module_level=True))
