"""./check --setup : build the framework offline from files on disk (flavors used by quick checks)."""
import shutil
import os
import sys
from concurrent.futures import ThreadPoolExecutor

import common


def main():
    lock = os.path.join(common.HARNESS, "Cargo.lock")
    if not os.path.exists(lock):
        shutil.copy(os.path.join(common.REPO, "Cargo.lock"), lock)
    ok = True
    try:
        common.build("dbg")
    except common.BuildError as e:
        common.log(str(e))
        ok = False

    try:
        common.build("rel")
    except common.BuildError as e:
        common.log("optional flavor rel failed: %s" % str(e)[-400:])

    def nightly():
        try:
            common.build("nightly", package="svmap")
        except common.BuildError as e:
            common.log("optional flavor nightly failed: %s" % str(e)[-400:])

    def miri():
        try:
            import c11
            c11.miri_build()
        except common.BuildError as e:
            common.log("optional flavor miri failed: %s" % str(e)[-400:])

    with ThreadPoolExecutor(max_workers=2) as ex:
        list(ex.map(lambda f: f(), [nightly, miri]))
    sys.exit(0 if ok else 1)
