"""C09: equality, hashing and ordering are coherent.
Oracle: the algebraic laws themselves, checked over all pairs (and all triples through equivalence
classes / order groups) of a pool built from equivalence candidates: the same abstract value through
different representations and construction paths, unfrozen and frozen-and-loaded."""
import json
import os
import random

import common
from common import NCPU, Report, log, seed


def int_forms(n):
    f = ["%d" % n, "opaque(%d)" % n, "(opaque(%d) + 1)" % (n - 1), 'int("%d")' % n, "(opaque(%d) * 1)" % n]
    if -(2**63) <= n < 2**63:
        f.append('host_alloc("i64", "%d")' % n)
    f.append('host_alloc("big", "%d")' % n)
    if abs(n) < 2**70:
        f.append("(opaque(%d) // 2)" % (2 * n))
    return f


def float_forms(n):
    """float forms for an integral value n"""
    return ["float(%d)" % n, "(opaque(%d) + 0.0)" % n, "%r" % float(n) if abs(n) < 2**63 else "float(%d)" % n]


def build_pool(rng, tier):
    groups = []  # list of (kind, [expr...])  exprs in a group are *candidates* to be equal (not required)
    ints = [0, 1, -1, 2, 7, 255, 2**31 - 1, 2**31, -(2**31), -(2**31) - 1, 2**32, 2**53 - 1, 2**53, 2**53 + 1, 2**53 + 2,
            2**63 - 1, 2**63, -(2**63), -(2**63) - 1, 2**64, 2**64 + 1, 2**100, -(2**100)]
    if tier == "thorough":
        ints += [2**k + d for k in (15, 16, 24, 40, 52, 54, 62, 65, 127) for d in (-1, 0, 1)] + [-(2**k) for k in (40, 52, 53, 54, 64)]
    for n in ints:
        forms = int_forms(n)
        if abs(n) <= 2**100:
            forms += float_forms(n)
        groups.append(("num", forms))
    groups.append(("num", ["0.0", "-0.0", "opaque(0.0)", "(opaque(1.0) - 1.0)", "(0.0 * -1.0)"]))
    groups.append(("num", ['float("nan")', 'opaque(float("nan"))', "(float(\"inf\") - float(\"inf\"))"]))
    groups.append(("num", ['float("inf")', "opaque(float(\"inf\"))", "1e308 * 10.0"]))
    groups.append(("num", ['float("-inf")', "-float(\"inf\")"]))
    groups.append(("num", ["0.5", "(opaque(1) / 2)", "opaque(0.5)", "1.5", "(opaque(3) / 2)", "-0.5", "1e-300", "2.5e10", "1e100", "float(%d)" % 10**100]))
    groups.append(("bool", ["True", "False", "(opaque(1) == 1)", "(opaque(1) == 2)", "bool(1)", "not True"]))
    groups.append(("none", ["None", "opaque(None)"]))
    strs = ["", "a", "b", "ab", "abc", "aB", "\\u00e9", "\\u65e5\\u672c", "a" * 40, "0", "1"]
    for s in strs:
        lit = '"%s"' % s
        forms = [lit, "opaque(%s)" % lit, '(%s + "")' % lit, '("x" + %s + "x")[1:-1]' % lit, '"{}".format(%s)' % lit,
                 '"".join([%s])' % lit, '("%%s" %% %s)' % lit, "str(%s)" % lit]
        if len(s) >= 2 and "\\" not in s:
            forms.append('("%s" + "%s")' % (s[:1], s[1:]))
            forms.append('"".join(list("%s".elems()))' % s)
        groups.append(("str", forms))
    tuples = ["()", "(1,)", "(1, 2)", "(2, 1)", '(1, "a")', "(1, (2, 3))", "(1, 2, 3)", "(1.0, 2)", "(True,)", "(None,)", '("a",)', "((),)"]
    for t in tuples:
        inner = t[1:-1].rstrip(",")
        forms = [t, "opaque(%s)" % t, "tuple([%s])" % inner, "(%s + ())" % t, "tuple(list(%s))" % t]
        groups.append(("tuple", forms))
    groups.append(("tuple", ["(1, 2)", "(1,) + (2,)", "(opaque(1), opaque(2))", "(1, 2.0)", "(1.0, 2.0)", "tuple([x for x in [1, 2]])"]))
    groups.append(("tuple", ["(%d, 1)" % (2**64), "(opaque(%d), 1)" % (2**64), "(float(%d), 1)" % (2**64), '(host_alloc("big", "%d"), 1)' % (2**64)]))
    # numbers nested in hashable containers: the element hash (write_hash) path, per representation
    nested = [-1, -2, -7, 3, -(2**31), 2**31 - 1, 2**31, -(2**31) - 1, -(2**40), 2**53, 2**64, -(2**64)]
    if tier == "quick":
        nested = [-1, -7] + rng.sample(nested[2:], 4)
    for n in nested:
        forms = ['(%d, "k")' % n, '(opaque(%d), "k")' % n, '(float(%d), "k")' % n, '((opaque(%d) + 0.0), "k")' % n,
                 '(host_alloc("big", "%d"), "k")' % n, 'tuple([%d, "k"])' % n, '(int("%d"), "k")' % n]
        if abs(n) < 2**31:
            forms.append('(%d.0, "k")' % n)
        groups.append(("tuple", forms))
        groups.append(("tuple", ["((%d,),)" % n, "((float(%d),),)" % n, '((host_alloc("big", "%d"),),)' % n, "((opaque(%d),),)" % n]))
        groups.append(("struct", ["struct(a=%d)" % n, "struct(a=float(%d))" % n, 'struct(a=host_alloc("big", "%d"))' % n, "struct(a=(opaque(%d),))" % n, "struct(a=(float(%d),))" % n]))
    lists = ["[]", "[1]", "[1, 2]", "[2, 1]", '["a"]', "[[1], [2]]", "[1.0, 2]", "[None]", "[(1, 2)]", "[1, 2, 3]"]
    for l in lists:
        inner = l[1:-1]
        groups.append(("list", [l, "opaque(%s)" % l, "list((%s,))" % inner if inner else "list(())", "(%s + [])" % l, "[x for x in %s]" % l]))
    dicts = ["{}", '{"a": 1}', '{"a": 1, "b": 2}', '{"b": 2, "a": 1}', "{1: 2}", "{1.0: 2}", "{(1, 2): [3]}", '{"a": 1.0}']
    for d in dicts:
        groups.append(("dict", [d, "opaque(%s)" % d, "dict(%s)" % d, "({} | %s)" % d, "{k: v for k, v in %s.items()}" % d]))
    groups.append(("set", ["set()", "set([])", "set([1, 2])", "set([2, 1])", "set([1.0, 2])", 'set(["a"])', "set([1]) | set([2])", "set([(1, 2)])"]))
    groups.append(("struct", ["struct()", "struct(a=1)", "struct(a=1, b=2)", "struct(b=2, a=1)", "struct(a=1.0)", "opaque(struct(a=1))", 'struct(a="x")', "struct(a=[1])", "struct(a=(1, 2))", "struct(a=(1, 2.0))"]))
    groups.append(("range", ["range(0)", "range(3)", "range(0, 3)", "range(0, 3, 1)", "range(0, 4, 2)", "range(0, 3, 2)", "range(1, 1)", "range(5, 0, -1)", "range(3, 0)", "opaque(range(3))"]))
    groups.append(("record", ["R1(x=1)", "R1(x=1)", "R1(x=2)", "R2(x=1)", "opaque(R1(x=1))", "R1(x=1.0)" if False else "R1(x=1)"]))
    groups.append(("enum", ['E1("a")', 'E1("a")', 'E1("b")', 'E2("a")', "E1[0]", "E1.values()[0]" if False else 'opaque(E1("a"))']))
    groups.append(("func", ["len", "opaque(len)", "F1", "F1", "F2", "lambda: 1" if False else "F2"]))
    groups.append(("typ", ["int", "str", "list", "opaque(int)", "type(1)", '"int"']))
    return groups


PRELUDE = """R1 = record(x=int | float)
R2 = record(x=int | float)
E1 = enum("a", "b")
E2 = enum("a", "b")
def F1(): return 1
def F2(): return 1
"""

CHECKER = """
N = len(POOL)
def _cell_lt(a, b):
    r = attempt(lambda: a < b)
    if r[0] == "ok":
        return "1" if r[1] else "0"
    return "E"
def _cell_eq(a, b):
    r = attempt(lambda: a == b)
    if r[0] == "ok":
        return "1" if r[1] else "0"
    return "E"
def _cell_ne(a, b):
    r = attempt(lambda: a != b)
    if r[0] == "ok":
        return "1" if r[1] else "0"
    return "E"
def _cell_heq(a, b):
    r = host_eq(a, b)
    if r == True:
        return "1"
    if r == False:
        return "0"
    return "E"
def _cell_hcmp(a, b):
    r = host_cmp(a, b)
    if r == None:
        return "E"
    return "<" if r < 0 else (">" if r > 0 else "=")
def _keys(a, b):
    # a == b was observed: they must be interchangeable as keys
    def f():
        d = {a: "A"}
        s = set([a])
        s2 = set([a, b])
        d2 = {}
        d2[a] = 1
        d2[b] = 2
        return [b in d, d.get(b), len(d2), b in s, len(s2)]
    return attempt(f)
def run_rows():
    hashes = [host_hash(x) for x in POOL]
    emit("hash", hashes)
    emit("types", [type(x) for x in POOL])
    for i in range(N):
        a = POOL[i]
        emit("row", i, "".join([_cell_eq(a, b) for b in POOL]), "".join([_cell_ne(a, b) for b in POOL]),
             "".join([_cell_lt(a, b) for b in POOL]), "".join([_cell_heq(a, b) for b in POOL]), "".join([_cell_hcmp(a, b) for b in POOL]))
        for j in range(N):
            if i != j and _cell_eq(a, POOL[j]) == "1" and hashes[i] != None and hashes[j] != None:
                emit("keys", i, j, _keys(a, POOL[j]))
run_rows()
"""


def is_literal(expr):
    """True when the pool expression is a plain literal (the compiler sees the constant)."""
    import ast
    if expr in ("True", "False", "None"):
        return True
    try:
        ast.literal_eval(expr)
        return "opaque" not in expr and not expr[:1].isalpha()
    except Exception:
        return False


def spec_src(exprs):
    """Comparisons against a compile-time constant take specialised paths (EqInt/EqStr/EqConst/EqPtr, constant lists and
    dicts, fused conditional jumps). For every literal pool entry j, compare every pool value with the literal spelled
    out in the code, in all operand orders and forms; the answers must equal those of the generic a == b matrix."""
    out = ["HASHES = [host_hash(x) for x in POOL]\n"]
    lits = []
    for j, e in enumerate(exprs):
        if not is_literal(e):
            continue
        hashable = not e.startswith(("[", "{"))
        lits.append(j)
        out.append("def _spec_%d():\n" % j)
        out.append("    r0 = \"\".join([\"1\" if x == %s else \"0\" for x in POOL])\n" % e)
        out.append("    r1 = \"\".join([\"1\" if %s == x else \"0\" for x in POOL])\n" % e)
        out.append("    r2 = \"\".join([\"1\" if x != %s else \"0\" for x in POOL])\n" % e)
        out.append("    r3 = \"\".join([\"1\" if %s != x else \"0\" for x in POOL])\n" % e)
        out.append("    r4 = \"\".join([\"1\" if x in [%s] else \"0\" for x in POOL])\n" % e)
        out.append("    r5 = \"\".join([\"1\" if x in (%s,) else \"0\" for x in POOL])\n" % e)
        out.append("    r6 = []\n    for x in POOL:\n        if x == %s:\n            r6.append(\"1\")\n        else:\n            r6.append(\"0\")\n" % e)
        out.append("    r7 = []\n    for x in POOL:\n        if x != %s:\n            r7.append(\"1\")\n        else:\n            r7.append(\"0\")\n" % e)
        out.append("    r8 = [(\"1\" if (not (x == %s)) else \"0\") for x in POOL]\n" % e)
        if hashable:
            out.append("    r9 = [(\"E\" if HASHES[i] == None else (\"1\" if POOL[i] in {%s: 1} else \"0\")) for i in range(N)]\n" % e)
        else:
            out.append("    r9 = []\n")
        out.append("    return [r0, r1, r2, r3, r4, r5, \"\".join(r6), \"\".join(r7), \"\".join(r8), \"\".join(r9)]\n")
        out.append("emit(\"spec\", %d, _spec_%d())\n" % (j, j))
    return "".join(out), lits


def make_case(groups, frozen):
    exprs = []
    meta = []
    for gi, (kind, forms) in enumerate(groups):
        for f in forms:
            exprs.append(f)
            meta.append((gi, kind, f))
    pool_src = "POOL = [\n" + "".join("    %s,\n" % e for e in exprs) + "]\n"
    spec, _lits = spec_src(exprs)
    if not frozen:
        src = PRELUDE + pool_src + CHECKER + spec
        units = [{"file": "c09.star", "src": src}]
    else:
        lib = PRELUDE + pool_src.replace("POOL", "LIBPOOL")
        # half of the pool comes frozen from the library, half is built locally: mixed-representation pairs
        main = 'load("lib.star", "LIBPOOL", "R1", "R2", "E1", "E2", "F1", "F2")\n' + pool_src.replace("POOL", "LOCAL") + \
            "POOL = [LIBPOOL[i] if i % 2 == 0 else LOCAL[i] for i in range(len(LOCAL))]\n" + CHECKER + spec
        units = [{"file": "lib.star", "src": lib, "freeze": True}, {"file": "c09.star", "src": main}]
    return {"id": "frozen" if frozen else "plain", "cfg": {"dialect": "extended"}, "units": units}, meta


def check_laws(rep, cid, meta, evs, flavor, stats):
    n = len(meta)
    rows = {}
    hashes = None
    types = None
    keys = []
    specs = {}
    for e in evs:
        if e[0] != "e":
            if e[0] == "r" and e[3] != "ok":
                rep.violation("c09:harness:" + cid, "law module failed to evaluate: %s" % json.dumps(e[4])[:400], {"case": cid})
                return
            continue
        tag = e[1][1:]
        if tag == "hash":
            hashes = [None if h is None else h for h in e[2][1:]]
        elif tag == "types":
            types = [t[1:] for t in e[2][1:]]
        elif tag == "row":
            rows[int(e[2][1:])] = [x[1:] for x in e[3:8]]
        elif tag == "keys":
            keys.append((int(e[2][1:]), int(e[3][1:]), e[4]))
        elif tag == "spec":
            specs[int(e[2][1:])] = [x[1:] for x in e[3][1:]]
    if len(rows) != n or hashes is None:
        rep.violation("c09:incomplete:" + cid, "law module emitted %d of %d rows" % (len(rows), n), {"case": cid})
        return

    def ex(i):
        return meta[i][2]

    def viol(sig, msg, idx):
        if sig == "trans" and lossy_int_float([ex(i) for i in idx]):
            rep.violation("c09:int-float-lossy-equality", "[%s/%s] %s   where %s" % (flavor, cid, msg, "; ".join("#%d = %s" % (i, ex(i)) for i in idx)),
                          {"flavor": flavor, "case": cid, "exprs": [ex(i) for i in idx], "law": sig})
            return
        rep.violation("c09:%s:%s" % (sig, "|".join(sorted(set(_shape(ex(i)) for i in idx)))[:100]),
                      "[%s/%s] %s   where %s" % (flavor, cid, msg, "; ".join("#%d = %s" % (i, ex(i)) for i in idx)),
                      {"flavor": flavor, "case": cid, "exprs": [ex(i) for i in idx], "law": sig})

    EQ, NE, LT, HEQ, HCMP = 0, 1, 2, 3, 4
    eq = lambda i, j: rows[i][EQ][j]
    # reflexivity, symmetry, agreement of ==, != and host equals
    for i in range(n):
        stats["pairs"] += n
        if eq(i, i) != "1":
            viol("refl", "a == a is %s" % eq(i, i), [i])
        for j in range(n):
            if eq(i, j) != eq(j, i):
                viol("sym", "a == b is %s but b == a is %s" % (eq(i, j), eq(j, i)), [i, j])
            if eq(i, j) in "01" and rows[i][NE][j] in "01" and eq(i, j) == rows[i][NE][j]:
                viol("ne", "a == b is %s and a != b is %s" % (eq(i, j), rows[i][NE][j]), [i, j])
            if rows[i][HEQ][j] != eq(i, j):
                viol("hosteq", "a == b is %s but Value::equals says %s" % (eq(i, j), rows[i][HEQ][j]), [i, j])
    # specialised comparison forms (constant operand visible to the compiler) agree with the generic matrix
    nlit = sum(1 for m in meta if is_literal(m[2]))
    if len(specs) != nlit:
        rep.violation("c09:incomplete-spec:" + cid, "law module emitted %d of %d constant-operand rows" % (len(specs), nlit), {"case": cid})
    FORMS = ["x == LIT", "LIT == x", "x != LIT", "LIT != x", "x in [LIT]", "x in (LIT,)", "if x == LIT", "if x != LIT", "not (x == LIT)", "x in {LIT: 1}"]
    flip = {"0": "1", "1": "0"}
    for j, rws in specs.items():
        for k, row in enumerate(rws):
            if not row:
                continue
            stats["spec_cells"] = stats.get("spec_cells", 0) + len(row)
            for i in range(n):
                if k == 9 and row[i] == "E":
                    continue
                want = eq(j, i) if k in (1, 3) else eq(i, j)
                if want not in "01":
                    continue
                if k in (2, 3, 7, 8):
                    want = flip[want]
                if row[i] != want:
                    viol("const-operand", "with LIT = %s spelled out in the code, `%s` gives %s but the same comparison between run-time values gives %s"
                         % (ex(j), FORMS[k], row[i], want), [i, j])
    # transitivity through equivalence classes
    parent = list(range(n))

    def find(x):
        while parent[x] != x:
            parent[x] = parent[parent[x]]
            x = parent[x]
        return x
    for i in range(n):
        for j in range(i + 1, n):
            if eq(i, j) == "1":
                parent[find(i)] = find(j)
    classes = {}
    for i in range(n):
        classes.setdefault(find(i), []).append(i)
    for cl in classes.values():
        if len(cl) > 1:
            stats["eq_classes"] += 1
        for a in cl:
            for b in cl:
                if eq(a, b) != "1":
                    # find the middle element
                    mid = [m for m in cl if eq(a, m) == "1" and eq(m, b) == "1"]
                    viol("trans", "a == m and m == b but a == b is %s" % eq(a, b), [a] + mid[:1] + [b])
        # equal => same hashability and same hash
        hs = set((hashes[i] is None) for i in cl)
        if len(hs) > 1:
            viol("hashability", "equal values, exactly one is hashable", [cl[0]] + [i for i in cl if (hashes[i] is None) != (hashes[cl[0]] is None)][:1])
        hv = {}
        for i in cl:
            if hashes[i] is not None:
                hv.setdefault(hashes[i], []).append(i)
        if len(hv) > 1:
            ks = list(hv.values())
            viol("hash", "equal values with different hashes (%s vs %s)" % (hashes[ks[0][0]], hashes[ks[1][0]]), [ks[0][0], ks[1][0]])
    # key interchangeability
    for i, j, r in keys:
        stats["key_checks"] += 1
        good = ["t", "sok", ["l", True, "sA", "i1", True, "i1"]]
        if r != good:
            viol("keys", "a == b, both hashable, but as keys: [b in {a:..}, {a:..}.get(b), len({a:1,b:2}), b in set([a]), len(set([a,b]))] = %s" % json.dumps(r)[:200], [i, j])
    # ordering: within groups where every pair is comparable
    comparable = lambda i, j: rows[i][LT][j] in "01" and rows[j][LT][i] in "01"
    by_type = {}
    for i in range(n):
        t = "num" if types[i] in ("int", "float") else types[i]
        by_type.setdefault(t, []).append(i)
    for t, idx in by_type.items():
        if not all(comparable(i, j) for i in idx for j in idx):
            continue  # not an orderable type (or partially so): nothing is demanded
        if t in ("dict", "struct", "function", "NoneType", "record", "enum", "set"):
            continue
        stats["order_groups"][t] = len(idx)
        isnan = lambda i: "nan" in ex(i)
        for i in idx:
            for j in idx:
                lt, gt, e_ = rows[i][LT][j] == "1", rows[j][LT][i] == "1", eq(i, j) == "1"
                if isnan(i) or isnan(j):
                    continue
                if (lt + gt + e_) != 1:
                    viol("trichotomy", "(a<b, a==b, a>b) = (%s, %s, %s)" % (lt, e_, gt), [i, j])
                hc = rows[i][HCMP][j]
                want = "<" if lt else (">" if gt else "=")
                if hc != want:
                    viol("hostcmp", "language says %s but Value::compare says %s" % (want, hc), [i, j])
        clean = [i for i in idx if not isnan(i)]
        for a in clean:
            la = rows[a][LT]
            for b in clean:
                if la[b] != "1":
                    continue
                lb = rows[b][LT]
                for c in clean:
                    if lb[c] == "1" and la[c] != "1":
                        viol("lt-trans", "a < b and b < c but not a < c", [a, b, c])
                stats["triples"] += len(clean)


def pyval(expr):
    """Abstract value of a numeric pool expression, computed independently (exact ints / IEEE doubles)."""
    env = {"opaque": lambda x: x, "host_alloc": lambda k, v: float(v) if k == "f64" else int(v), "float": float, "int": int, "__builtins__": {}}
    try:
        v = eval(expr, env)
    except Exception:
        return None
    return v if isinstance(v, (int, float)) and not isinstance(v, bool) else None


def lossy_int_float(exprs):
    """Classifier of the known finding: the witnesses are numbers, at least one float and one int that is not
    exactly representable as a double, and all of them round to the same double."""
    vals = [pyval(e) for e in exprs]
    if any(v is None for v in vals):
        return False
    ints = [v for v in vals if isinstance(v, int)]
    floats = [v for v in vals if isinstance(v, float)]
    if not ints or not floats:
        return False
    try:
        rounded = set(float(v) for v in vals)
    except OverflowError:
        return False
    return len(rounded) == 1 and any(int(float(i)) != i for i in ints)


def _shape(e):
    import re
    return re.sub(r"[0-9]{3,}", "N", e)[:40]


SORT_SRC = """
def run_sort():
    for name, xs in CASES:
        tagged = [(xs[i], i) for i in range(len(xs))]
        r = attempt(lambda: sorted(tagged, key=lambda p: p[0]))
        rr = attempt(lambda: sorted(tagged, key=lambda p: p[0], reverse=True))
        lt = [["E" if attempt(lambda: a < b)[0] != "ok" else ("1" if a < b else "0") for b in xs] for a in xs]
        emit("sort", name, [p[1] for p in r[1]] if r[0] == "ok" else None, [p[1] for p in rr[1]] if rr[0] == "ok" else None, lt)
        # without key=: elements that compare equal but are distinguishable (1 / 1.0, 0.0 / -0.0) must keep their input order
        nk = attempt(lambda: sorted(xs))
        nkr = attempt(lambda: sorted(xs, reverse=True))
        emit("sortnk", name, [repr(x) for x in xs], [repr(x) for x in nk[1]] if nk[0] == "ok" else None, [repr(x) for x in nkr[1]] if nkr[0] == "ok" else None)
run_sort()
"""


def sort_cases(rng, n):
    cases = []
    pools = {
        "int": lambda: str(rng.choice([0, 1, -1, 2, 3, 5, 2**31, 2**31 - 1, -(2**31), 2**63, 2**64, -(2**64), 7, 7, 3])),
        "num": lambda: rng.choice(["1", "1.0", "2", "2.0", "0.5", "-0.0", "0.0", "0", str(2**53), "float(%d)" % 2**53, str(2**53 + 1), "3", "-1", "-1.0", "1e100", str(10**100)]),
        "numsmall": lambda: rng.choice(["1", "1.0", "2", "2.0", "0", "0.0", "-0.0", "3", "3.0", "-1", "-1.0", "0.5", "7", "7.0"]),
        "tupnum": lambda: rng.choice(["(1, \"a\")", "(1.0, \"a\")", "(0, \"a\")", "(0.0, \"a\")", "(1, \"b\")", "(2.0, \"a\")", "(2, \"a\")"]),
        "str": lambda: '"%s"' % rng.choice(["", "a", "b", "ab", "aa", "B", "a", "ba", "\\u00e9", "z"]),
        "tup": lambda: "(%d, %s)" % (rng.randint(0, 2), rng.choice(['"a"', '"b"', '"a"'])),
        "list": lambda: "[%s]" % ", ".join(str(rng.randint(0, 2)) for _ in range(rng.randint(0, 3))),
        "bool": lambda: rng.choice(["True", "False"]),
    }
    for i in range(n):
        k = rng.choice(list(pools))
        m = rng.choice([0, 1, 2, 3, 5, 8, 13, 21, 25, 33, 40, 64])
        xs = [pools[k]() for _ in range(m)]
        cases.append(("%s%d" % (k, i), xs))
    return cases


def check_sort(rep, evs, cases, flavor, stats):
    byname = {c[0]: c[1] for c in cases}
    import functools
    ltm = {}
    for e in evs:
        if e[0] == "e" and e[1] == "ssort":
            ltm[e[2][1:]] = [[c[1:] for c in row[1:]] for row in e[5][1:]]
    for e in evs:
        if e[0] != "e" or e[1] != "ssortnk":
            continue
        name = e[2][1:]
        lt = ltm.get(name)
        reprs = [x[1:] for x in e[3][1:]]
        n = len(reprs)
        if lt is None or not all(c in "01" for row in lt for c in row):
            continue
        xs = byname[name]
        if any("nan" in x for x in xs):
            continue
        cmpf = functools.cmp_to_key(lambda a, b: -1 if lt[a][b] == "1" else (1 if lt[b][a] == "1" else 0))
        for which, res, rev in (("sorted(xs)", e[4], False), ("sorted(xs, reverse=True)", e[5], True)):
            if res is None:
                continue
            stats["sorts"] += 1
            want = [reprs[i] for i in sorted(range(n), key=cmpf, reverse=rev)]
            got = [x[1:] for x in res[1:]]
            if got != want:
                # int/float values beyond 2^53 compare inconsistently (known finding): not judged here
                if any(isinstance(pyval(x), int) and abs(pyval(x)) > 2**53 for x in xs):
                    continue
                rep.violation("c09:sort-stable:no-key", "[%s] %s is not the stable order of %s: got %s, stable order is %s" % (flavor, which, xs, got[:30], want[:30]), {"values": xs, "result": got})
                break
    for e in evs:
        if e[0] != "e" or e[1] != "ssort":
            continue
        name = e[2][1:]
        xs = byname[name]
        n = len(xs)
        lt = [[c[1:] for c in row[1:]] for row in e[5][1:]]
        total = all(c in "01" for row in lt for c in row)
        for which, res, rev in (("sorted", e[3], False), ("sorted(reverse=True)", e[4], True)):
            stats["sorts"] += 1
            if res is None:
                if total:
                    rep.violation("c09:sort-fails", "[%s] %s fails on totally comparable values %s" % (flavor, which, xs), {"values": xs})
                continue
            perm = [int(x[1:]) for x in res[1:]]
            if sorted(perm) != list(range(n)):
                rep.violation("c09:sort-perm", "[%s] %s is not a permutation: %s for %s" % (flavor, which, perm, xs), {"values": xs, "result": perm})
                continue
            if not total:
                continue
            for a, b in zip(perm, perm[1:]):
                # ordered: the later element is never strictly before the earlier one (w.r.t. direction)
                bad = lt[a][b] == "1" if rev else lt[b][a] == "1"
                if bad and lossy_int_float([xs[a], xs[b]] + [x for x in xs if isinstance(pyval(x), float) and pyval(x) == float(pyval(xs[a]) or 0)][:1]):
                    rep.violation("c09:int-float-lossy-equality", "[%s] %s order is inconsistent for ints and floats that round to the same double: %s" % (flavor, which, xs), {"values": xs, "result": perm})
                    break
                if bad:
                    rep.violation("c09:sort-order", "[%s] %s out of order: %s then %s in %s" % (flavor, which, xs[a], xs[b], xs), {"values": xs, "result": perm})
                    break
                # stable: elements that compare equal keep their input order
                if lt[a][b] != "1" and lt[b][a] != "1" and a > b:
                    rep.violation("c09:sort-stable", "[%s] %s not stable: equal keys %s(#%d) before %s(#%d) in %s" % (flavor, which, xs[a], a, xs[b], b, xs), {"values": xs, "result": perm})
                    break


def run(tier):
    rep = Report("C09", tier)
    s = seed()
    rng = random.Random("%d/c09" % s)
    groups = build_pool(rng, tier)
    # seeded sub-sampling of forms keeps quick runs small but different per seed
    if tier == "quick":
        groups = [(k, f if len(f) <= 7 else rng.sample(f, 7) + [f[0]]) for k, f in groups]
    cases = []
    metas = {}
    for frozen in (False, True):
        c, meta = make_case(groups, frozen)
        cases.append(c)
        metas[c["id"]] = meta
    scases = sort_cases(rng, 400 if tier == "quick" else 5000)
    sort_src = "CASES = [\n" + "".join('    ("%s", [%s]),\n' % (n, ", ".join(xs)) for n, xs in scases) + "]\n" + SORT_SRC
    cases.append({"id": "sort", "cfg": {"dialect": "extended"}, "units": [{"file": "sort.star", "src": sort_src}]})
    flavors = ["dbg"] if tier == "quick" else ["dbg", "rel"]
    stats = {"pairs": 0, "eq_classes": 0, "key_checks": 0, "order_groups": {}, "triples": 0, "sorts": 0}
    npool = len(metas["plain"])
    log("[C09] pool of %d values, %d sort cases" % (npool, len(scases)))
    for flavor in flavors:
        svh = os.path.join(common.build(flavor), "svh")
        batch = common.run_cases(svh, "run", cases, "c09_" + flavor, shards=3, timeout=3000)
        for cr in batch.crashes:
            rep.violation(common.crash_signature(cr), "runner crashed in %s" % cr["id"], {"flavor": flavor, "crash": cr.get("confirm")})
        for inc in batch.inconclusive:
            rep.inconc(inc["why"], inc.get("id"))
        for c in cases[:2]:
            if c["id"] in batch.events:
                check_laws(rep, c["id"], metas[c["id"]], batch.events[c["id"]], flavor, stats)
        if "sort" in batch.events:
            bad = [e for e in batch.events["sort"] if e[0] == "r" and e[3] != "ok"]
            if bad:
                rep.violation("c09:harness:sort", "sort module failed: %s" % json.dumps(bad)[:300], {})
            check_sort(rep, batch.events["sort"], scases, flavor, stats)
    rep.coverage = {
        "evaluations": stats["pairs"] + stats["sorts"],
        "distinct_nontrivial": npool * npool,
        "rule": "evaluation = one ordered pair of pool values for which ==, !=, <, Value::equals, Value::compare were all observed (plus one per sorted() call checked); "
                "distinct = ordered pairs of the pool (each pool entry is a distinct expression); triples are covered through equivalence classes (==) and per-type order groups (<)",
        "samples": [{"pool_entry": m[2], "kind": m[1]} for m in metas["plain"][:: max(1, npool // 8)]][:8],
        "pool_size": npool,
        "equivalence_classes_with_more_than_one_member": stats["eq_classes"],
        "key_interchange_checks": stats["key_checks"],
        "order_groups": stats["order_groups"],
        "lt_triples_checked": stats["triples"],
        "sorted_calls_checked": stats["sorts"],
        "constant_operand_cells_checked": stats.get("spec_cells", 0),
        "flavors": flavors,
        "variants": ["all values built in one module", "even entries frozen and loaded, odd entries local"],
    }
    rep.assumptions = ["the laws are the oracle; no reference implementation", "NaN is excluded from trichotomy/transitivity of < (IEEE unordered), but not from reflexivity of =="]
    rep.finish(sanity_ok=stats["pairs"] > 1000 and stats["eq_classes"] > 10 and stats["key_checks"] > 10 and stats.get("spec_cells", 0) > 1000,
               sanity_msg="too few observations")


def replay(rep):
    w = rep["witness"]
    exprs = w.get("exprs")
    if not exprs:
        print(json.dumps(w))
        return 1
    svh = os.path.join(common.build(w.get("flavor", "dbg")), "svh")
    groups = [("x", exprs)]
    c, meta = make_case(groups, False)
    batch = common.run_cases(svh, "run", [c], "c09_replay", shards=1)
    r2 = Report("C09", "replay")
    stats = {"pairs": 0, "eq_classes": 0, "key_checks": 0, "order_groups": {}, "triples": 0, "sorts": 0}
    check_laws(r2, "plain", meta, batch.events.get("plain", []), "dbg", stats)
    for v in r2.violations:
        print(v["what"])
    return 1 if r2.violations else 0
