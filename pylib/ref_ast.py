"""Reference grouping for C06: canonical S-expression of CPython's ast for texts of the grammar Starlark shares
with Python (mirror of harness/svh/src/parse.rs). `Unsupported` marks constructs outside the shared grammar."""
import ast
import re
import struct


class Unsupported(Exception):
    pass


_SRC_LINES = []


def _char_at(lineno, col):
    try:
        return _SRC_LINES[lineno - 1].encode("utf-8")[col:col + 1].decode("utf-8", "replace")
    except IndexError:
        return ""


def _parenthesised(node):
    """Is this Tuple node written with its own enclosing parentheses?"""
    seg = ast.get_source_segment("\n".join(_SRC_LINES), node) or ""
    if not (seg.startswith("(") and seg.endswith(")")):
        return False
    depth = 0
    quote = None
    for i, c in enumerate(seg):
        if quote:
            if c == quote:
                quote = None
            continue
        if c in "\"'":
            quote = c
        elif c in "([{":
            depth += 1
        elif c in ")]}":
            depth -= 1
            if depth == 0 and i != len(seg) - 1:
                return False  # the opening parenthesis closes before the end: it belongs to the first element
    return True


def _after(node):
    """Text following the node on its last line."""
    try:
        return _SRC_LINES[node.end_lineno - 1].encode("utf-8")[node.end_col_offset:].decode("utf-8", "replace")
    except IndexError:
        return ""


def _check_tuple(node):
    """Starlark (spec and implementation) forbids a trailing comma in an unparenthesised tuple."""
    if _parenthesised(node):
        return
    if len(node.elts) == 1:
        raise Unsupported("unparenthesised tuple with trailing comma")
    last = node.elts[-1]
    if _after(last).lstrip().startswith(","):
        raise Unsupported("unparenthesised tuple with trailing comma")


BINOPS = {ast.Add: "+", ast.Sub: "-", ast.Mult: "*", ast.Div: "/", ast.FloorDiv: "//", ast.Mod: "%", ast.BitAnd: "&", ast.BitOr: "|", ast.BitXor: "^",
          ast.LShift: "<<", ast.RShift: ">>"}
CMPOPS = {ast.Eq: "==", ast.NotEq: "!=", ast.Lt: "<", ast.LtE: "<=", ast.Gt: ">", ast.GtE: ">=", ast.In: "in", ast.NotIn: "notin"}
UNOPS = {ast.Not: "not", ast.USub: "neg", ast.UAdd: "pos", ast.Invert: "inv"}


def fbits(x):
    return "%016x" % struct.unpack(">Q", struct.pack(">d", x))[0]


def pos(n):
    return (n.lineno, n.col_offset)


def expr(e):
    if isinstance(e, ast.BinOp):
        if type(e.op) not in BINOPS:
            raise Unsupported("operator " + type(e.op).__name__)
        return [BINOPS[type(e.op)], expr(e.left), expr(e.right)]
    if isinstance(e, ast.BoolOp):
        name = "and" if isinstance(e.op, ast.And) else "or"
        vals = [expr(v) for v in e.values]
        # CPython flattens `a or b or c`, and also `(a or b) or c`?  No: parenthesised groups stay nested; left-nest the flat list.
        acc = vals[0]
        for v in vals[1:]:
            acc = [name, acc, v]
        return acc
    if isinstance(e, ast.UnaryOp):
        return [UNOPS[type(e.op)], expr(e.operand)]
    if isinstance(e, ast.Compare):
        if len(e.ops) != 1:
            raise Unsupported("chained comparison")
        if type(e.ops[0]) not in CMPOPS:
            raise Unsupported("operator " + type(e.ops[0]).__name__)
        return [CMPOPS[type(e.ops[0])], expr(e.left), expr(e.comparators[0])]
    if isinstance(e, ast.Call):
        items = []
        for a in e.args:
            if isinstance(a, ast.Starred):
                items.append((pos(a), ["star", expr(a.value)], "star"))
            else:
                items.append((pos(a), ["pos", expr(a)], "pos"))
        for k in e.keywords:
            if k.arg is None:
                items.append((pos(k), ["dstar", expr(k.value)], "dstar"))
            else:
                items.append((pos(k), ["kw", k.arg, expr(k.value)], "kw"))
        items.sort(key=lambda x: x[0])
        order = {"pos": 0, "kw": 1, "star": 2, "dstar": 3}
        ranks = [order[k] for _, _, k in items]
        if ranks != sorted(ranks) or ranks.count(2) > 1 or ranks.count(3) > 1:
            raise Unsupported("argument order outside positional*, named*, *args?, **kwargs?")
        return ["call", expr(e.func)] + [x[1] for x in items]
    if isinstance(e, ast.Attribute):
        return ["attr", expr(e.value), e.attr]
    if isinstance(e, ast.Subscript):
        s = e.slice
        if isinstance(s, ast.Slice):
            return ["slice", expr(e.value), opt(s.lower), opt(s.upper), opt(s.step)]
        if isinstance(s, ast.Tuple):
            if len(s.elts) != 2 or any(isinstance(x, (ast.Slice, ast.Starred)) for x in s.elts):
                raise Unsupported("subscript tuple")
            return ["index", expr(e.value), ["tuple"] + [expr(x) for x in s.elts]]
        return ["index", expr(e.value), expr(s)]
    if isinstance(e, ast.Name):
        return ["id", e.id]
    if isinstance(e, ast.Constant):
        v = e.value
        if v is True or v is False or v is None:
            return ["id", repr(v)]
        if isinstance(v, int):
            return ["int", str(v)]
        if isinstance(v, float):
            return ["float", fbits(v)]
        if isinstance(v, str):
            if getattr(e, "kind", None) == "u":
                raise Unsupported("u-string")
            return ["str", v]
        raise Unsupported("constant " + type(v).__name__)
    if isinstance(e, ast.Tuple):
        if any(isinstance(x, ast.Starred) for x in e.elts):
            raise Unsupported("starred")
        if e.elts:
            _check_tuple(e)
        return ["tuple"] + [expr(x) for x in e.elts]
    if isinstance(e, ast.List):
        if any(isinstance(x, ast.Starred) for x in e.elts):
            raise Unsupported("starred")
        return ["list"] + [expr(x) for x in e.elts]
    if isinstance(e, ast.Dict):
        if any(k is None for k in e.keys):
            raise Unsupported("dict unpacking")
        return ["dict"] + [[expr(k), expr(v)] for k, v in zip(e.keys, e.values)]
    if isinstance(e, ast.IfExp):
        return ["ifexp", expr(e.test), expr(e.body), expr(e.orelse)]
    if isinstance(e, ast.Lambda):
        return ["lambda", params(e.args), expr(e.body)]
    if isinstance(e, ast.ListComp):
        return ["listcomp", expr(e.elt), clauses(e.generators)]
    if isinstance(e, ast.DictComp):
        return ["dictcomp", expr(e.key), expr(e.value), clauses(e.generators)]
    raise Unsupported(type(e).__name__)


def opt(e):
    return None if e is None else expr(e)


def clauses(gens):
    out = []
    for g in gens:
        if g.is_async:
            raise Unsupported("async")
        out.append(["for", target(g.target), expr(g.iter)])
        for c in g.ifs:
            out.append(["if", expr(c)])
    return out


def params(a):
    out = []
    positional = a.posonlyargs + a.args
    nd = len(a.defaults)
    for i, p in enumerate(positional):
        if p.annotation is not None:
            raise Unsupported("annotation")
        d = None
        di = i - (len(positional) - nd)
        if di >= 0:
            d = expr(a.defaults[di])
        out.append(["param", p.arg, None, d])
        if a.posonlyargs and i == len(a.posonlyargs) - 1:
            out.append(["slash"])
    if a.vararg is not None:
        if a.vararg.annotation is not None:
            raise Unsupported("annotation")
        out.append(["args", a.vararg.arg, None])
    elif a.kwonlyargs:
        out.append(["bare_star"])
    for p, d in zip(a.kwonlyargs, a.kw_defaults):
        if p.annotation is not None:
            raise Unsupported("annotation")
        out.append(["param", p.arg, None, None if d is None else expr(d)])
    if a.kwarg is not None:
        if a.kwarg.annotation is not None:
            raise Unsupported("annotation")
        out.append(["kwargs", a.kwarg.arg, None])
    return out


def target(t):
    if isinstance(t, ast.Name):
        return ["id", t.id]
    if isinstance(t, (ast.Tuple, ast.List)):
        if any(isinstance(x, ast.Starred) for x in t.elts):
            raise Unsupported("starred target")
        if isinstance(t, ast.Tuple) and t.elts:
            _check_tuple(t)
        return ["tuple"] + [target(x) for x in t.elts]
    if isinstance(t, ast.Attribute):
        return ["attr", expr(t.value), t.attr]
    if isinstance(t, ast.Subscript):
        if isinstance(t.slice, ast.Slice) or isinstance(t.slice, ast.Tuple):
            raise Unsupported("slice/tuple subscript target")
        return ["index", expr(t.value), expr(t.slice)]
    raise Unsupported("target " + type(t).__name__)


def block(stmts):
    return ["block"] + [stmt(s) for s in stmts]


def stmt(s):
    if isinstance(s, ast.Expr):
        if isinstance(s.value, ast.Tuple) and not _parenthesised(s.value):
            raise Unsupported("expression statement that is an unparenthesised tuple (not in the Starlark grammar)")
        return ["expr", expr(s.value)]
    if isinstance(s, ast.Assign):
        if len(s.targets) != 1:
            raise Unsupported("chained assignment")
        return ["assign", target(s.targets[0]), None, expr(s.value)]
    if isinstance(s, ast.AugAssign):
        if type(s.op) not in BINOPS:
            raise Unsupported("operator")
        if isinstance(s.target, (ast.Tuple, ast.List)):
            raise Unsupported("augassign tuple")
        return ["augassign", BINOPS[type(s.op)], target(s.target), expr(s.value)]
    if isinstance(s, ast.Return):
        return ["return", opt(s.value)]
    if isinstance(s, ast.Pass):
        return ["pass"]
    if isinstance(s, ast.Break):
        return ["break"]
    if isinstance(s, ast.Continue):
        return ["continue"]
    if isinstance(s, ast.If):
        return ["if", expr(s.test), block(s.body), block(s.orelse) if s.orelse else None]
    if isinstance(s, ast.For):
        if s.orelse:
            raise Unsupported("for-else")
        if isinstance(s.iter, ast.Tuple) and not _parenthesised(s.iter):
            raise Unsupported("unparenthesised tuple as for-iterable (intended difference)")
        return ["for", target(s.target), expr(s.iter), block(s.body)]
    if isinstance(s, ast.FunctionDef):
        if s.decorator_list:
            raise Unsupported("decorator")
        if s.returns is not None:
            raise Unsupported("annotation")
        return ["def", s.name, params(s.args), None, block(s.body)]
    raise Unsupported(type(s).__name__)


def _lexical_outside(src):
    """Lexical forms that only one of the two languages has (checked on CPython's token stream)."""
    import io
    import tokenize
    if "\t" in src:
        return "tab character"
    try:
        prev = None
        for tok in tokenize.generate_tokens(io.StringIO(src).readline):
            if tok.type == tokenize.STRING:
                if prev == tokenize.STRING:
                    return "adjacent string literals"
                if re.match(r"[A-Za-z]*[uU]", tok.string.split(tok.string.lstrip("rRbBuUfF")[0])[0] or ""):
                    return "u-string"
                if re.match(r"[rRbBfF]", tok.string):
                    return "string prefix"
            if tok.type == tokenize.NUMBER:
                t = tok.string
                if "_" in t:
                    return "underscore in number"
                if re.match(r"0[0-9]", t):
                    return "leading zero"
                if t[-1] in "jJ":
                    return "complex literal"
                if t.startswith(".") or t.endswith(".") or re.search(r"\.[eE]", t):
                    return "float without digits on both sides of the point"
            if tok.type not in (tokenize.NL, tokenize.COMMENT):
                prev = tok.type
    except (tokenize.TokenError, IndentationError, SyntaxError):
        pass
    return None


def parse(src):
    """Returns ("ok", sexp) | ("reject", msg) | ("unsupported", why)."""
    global _SRC_LINES
    _SRC_LINES = src.split("\n")
    why = _lexical_outside(src)
    if why:
        return ("unsupported", "lexical: " + why)
    try:
        tree = ast.parse(src)
        compile(src, "p.star", "exec")
    except (SyntaxError, ValueError, RecursionError, MemoryError) as e:
        m = str(e)
        if m.startswith(("cannot assign to True", "cannot assign to False", "cannot assign to None", "cannot delete")):
            return ("unsupported", "True/False/None are ordinary identifiers in Starlark")
        return ("reject", m[:100])
    try:
        return ("ok", block(tree.body))
    except Unsupported as e:
        return ("unsupported", str(e))
    except RecursionError:
        return ("unsupported", "too deep")
