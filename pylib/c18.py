"""C18: profilers, statement hooks and the debugger observe without interfering.
Monitors: (a) transcript/result/error under every ProfileMode, a no-op statement hook and the debug adapter (breakpoints,
continue, stepping) equals the uninstrumented run; (b) with breakpoints on a set S of marker lines and `continue` at every
stop, the stop log is exactly the subsequence of marker executions with line in S; (c) scalar variables shown at a stop
equal what the marker statement emits right afterwards; (d) step-into visits every marker execution exactly once, in
order; (e) no panic / deadlock, evaluator result unchanged."""
import json
import os
import random
import re

import common
import gen_full
from common import NCPU, Report, log, seed

PROFILES = ["heap-summary-allocated", "heap-summary-retained", "heap-flame-allocated", "heap-flame-retained", "heap-allocated", "heap-retained",
            "statement", "coverage", "bytecode", "bytecode-pairs", "time-flame", "typecheck", "none"]


def make_program(rng):
    lines = gen_full.gen_program(rng, max_stmts=rng.choice([12, 25, 40]), inject_fail=0.3, annotations=True)
    out = []
    markers = {}  # line -> (0 if module-level code else 1, [names])
    defs = []  # indents of enclosing def headers
    for i, (ind0, t) in enumerate(lines):
        while defs and defs[-1] >= ind0:
            defs.pop()
        # 0 = module-level statement outside any loop (these carry the evaluator's GC safepoint), 1 = inside a def or a loop
        ind = 1 if defs else 0
        if t.startswith(("def ", "for ")):
            defs.append(ind0)
        ln = i + 1
        m = re.fullmatch(r"emit\(([A-Za-z_][A-Za-z_0-9]*)\)", t)
        if m:
            # marker statement: emits a tag, its own line and one plain variable (no nested calls inside a marker)
            t = "emit(\"M\", %d, %s)" % (ln, m.group(1))
            markers[ln] = (ind, [m.group(1)])
        out.append((ind0, t))
    return gen_full.render(out), markers


def norm_transcript(evs):
    out = []
    for e in evs:
        if e[0] in ("e", "p"):
            out.append(e)
        elif e[0] == "r" and e[2] == 0:
            if e[3] == "ok":
                out.append(["end", "ok", e[4]])
            elif e[3] == "err":
                sp = e[4].get("span") or {}
                out.append(["end", "err", e[4].get("msg"), sp.get("bl")])
            else:
                out.append(["end", e[3]])
        elif e[0] in ("panic",):
            out.append(e)
    return out


def marker_execs(transcript):
    """Sequence of (line, emitted values) of marker executions from a transcript."""
    out = []
    for e in transcript:
        if e[0] == "e" and len(e) > 2 and e[1] == "sM":
            out.append((int(e[2][1:]), e[3:]))
    return out


def shown(enc):
    """What DapAdapter::variables shows for a scalar with this canonical encoding (None = not a scalar)."""
    if enc is True:
        return "True"
    if enc is False:
        return "False"
    if enc is None:
        return "None"
    if isinstance(enc, str) and enc[0] == "i":
        return enc[1:]
    if isinstance(enc, str) and enc[0] == "s":
        return enc[1:] if len(enc) < 5000 else None
    return None


def run(tier):
    rep = Report("C18", tier)
    s = seed()
    n = 150 if tier == "quick" else common.tscale(3000)
    flavors = ["dbg"] if tier == "quick" else ["dbg", "rel"]
    progs = []
    for i in range(n):
        rng = random.Random("%d/c18/%d" % (s, i))
        src, markers = make_program(rng)
        progs.append((i, src, markers, rng))
    st = {"configs": 0, "stops": 0, "var_checks": 0, "step_runs": 0, "bp_runs": 0, "hook_events": 0, "profiles": 0}
    distinct = set()
    samples = []
    for flavor in flavors:
        svh = os.path.join(common.build(flavor), "svh")
        run_cases, dbg_cases, meta = [], [], {}
        for i, src, markers, rng in progs:
            run_cases.append({"id": "p%d/base" % i, "cfg": {"dialect": "internal"}, "units": [{"file": "d.star", "src": src}]})
            profs = PROFILES if tier == "thorough" else rng.sample(PROFILES, 4)
            for p in profs:
                run_cases.append({"id": "p%d/prof:%s" % (i, p), "cfg": {"dialect": "internal", "profile": p}, "units": [{"file": "d.star", "src": src}]})
            ml = sorted(markers)
            dbg_cases.append({"id": "p%d/none" % i, "src": src, "hook": "none", "dialect": "internal"})
            dbg_cases.append({"id": "p%d/noop" % i, "src": src, "hook": "noop", "dialect": "internal"})
            subsets = [("bp_all", ml), ("bp_none", []), ("bp_sub", sorted(rng.sample(ml, len(ml) // 2)) if ml else [])]
            for name, S in subsets:
                dbg_cases.append({"id": "p%d/%s" % (i, name), "src": src, "hook": "dap", "breakpoints": S, "dialect": "internal", "evaluate": "1 + 1" if name == "bp_sub" else None})
                meta["p%d/%s" % (i, name)] = set(S)
            nlines = src.count("\n") + 1
            dbg_cases.append({"id": "p%d/bp_every_line" % i, "src": src, "hook": "dap", "breakpoints": list(range(1, nlines + 1)), "dialect": "internal", "max_stops": 20000})
            # a malformed expression sent to evaluate() at every stop (a half-typed watch expression): the request fails, the session must go on unchanged
            dbg_cases.append({"id": "p%d/bp_badeval" % i, "src": src, "hook": "dap", "breakpoints": ml, "dialect": "internal", "evaluate": "1 +"})
            meta["p%d/bp_badeval" % i] = set(ml)
            dbg_cases.append({"id": "p%d/bp_cond_true" % i, "src": src, "hook": "dap", "breakpoints": [[l, "1 == 1"] for l in ml], "dialect": "internal"})
            meta["p%d/bp_cond_true" % i] = set(ml)
            dbg_cases.append({"id": "p%d/bp_cond_false" % i, "src": src, "hook": "dap", "breakpoints": [[l, "1 == 2"] for l in ml], "dialect": "internal"})
            meta["p%d/bp_cond_false" % i] = set()
            for kind in ("into", "over", "out"):
                dbg_cases.append({"id": "p%d/step_%s" % (i, kind), "src": src, "hook": "dap", "stop_at_first": 1, "step": kind, "dialect": "internal", "max_stops": 3000})
        b1 = common.run_cases(svh, "run", run_cases, "c18r_" + flavor, shards=NCPU, timeout=3000)
        b2 = common.run_cases(svh, "debug", dbg_cases, "c18d_" + flavor, shards=NCPU, timeout=3000, per_case_timeout=150)
        for b in (b1, b2):
            for cr in b.crashes:
                rep.violation("c18:" + common.crash_signature(cr), "[%s] crash in %s" % (flavor, cr["id"]), {"flavor": flavor, "case": cr["case"], "crash": cr.get("confirm")})
            for inc in b.inconclusive:
                rep.inconc(inc["why"], inc.get("id"))
        for i, src, markers, rng in progs:
            base = b1.events.get("p%d/base" % i)
            if base is None:
                continue
            ref = norm_transcript(base)
            if any(e[0] == "panic" for e in ref):
                if common.is_oom_text(str([e for e in ref if e[0] == "panic"][0][1])):
                    rep.inconc("allocation failure", "p%d" % i)
                continue
            execs = marker_execs(ref)
            distinct.add(hash(json.dumps(ref[:40])))
            module_level = set(l for l, (ind, _) in markers.items() if ind == 0)
            for cid, evs, mode in [(c["id"], b1.events.get(c["id"]), "run") for c in run_cases if c["id"].startswith("p%d/" % i) and not c["id"].endswith("/base")] + \
                                  [(c["id"], b2.events.get(c["id"]), "debug") for c in dbg_cases if c["id"].startswith("p%d/" % i)]:
                if evs is None:
                    continue
                st["configs"] += 1
                cfgname = cid.split("/", 1)[1]
                wit = {"flavor": flavor, "id": cid, "src": src, "config": cfgname}
                got = norm_transcript(evs)
                wd = [e for e in evs if e[0] == "watchdog"]
                if wd:
                    rep.inconc("debugger watchdog fired", cid)
                    continue
                if mode == "run":
                    st["profiles"] += 1
                if got != ref:
                    k = 0
                    while k < min(len(got), len(ref)) and got[k] == ref[k]:
                        k += 1
                    rep.violation("c18:transcript:%s" % cfgname.split(":")[-1].split("_")[0], "[%s] %s: transcript under %s differs from the uninstrumented run at event %d: %s vs %s" % (
                        flavor, cid, cfgname, k, json.dumps(got[k] if k < len(got) else None)[:200], json.dumps(ref[k] if k < len(ref) else None)[:200]), wit)
                    continue
                if cfgname == "noop":
                    # every marker execution is preceded by exactly one hook call for its line (two at module level: known finding)
                    pending = []
                    for e in evs:
                        if e[0] == "stmt" and e[2] is False:
                            pending.append(e[1])
                            st["hook_events"] += 1
                        elif e[0] == "e" and len(e) > 2 and e[1] == "sM":
                            L = int(e[2][1:])
                            cnt = pending.count(L)
                            want = 1
                            if L in markers and cnt != want:
                                if L in module_level and cnt == 2:
                                    rep.violation("c18:double-stop:module-level", "[%s] %s: statement hook fired twice for module-level statement at line %d" % (flavor, cid, L), wit)
                                else:
                                    rep.violation("c18:stmt-hook-count:%d" % min(cnt, 3), "[%s] %s: statement hook fired %d times before the statement at line %d executed" % (flavor, cid, cnt, L), wit)
                                break
                            pending = []
                    continue
                if cfgname == "bp_every_line":
                    # a breakpoint on every line: per line, the number of stops equals the number of times the statement
                    # hook fired for a statement beginning on that line in the no-op hook run of the same program
                    hook = b2.events.get("p%d/noop" % i)
                    if hook is None:
                        continue
                    from collections import Counter
                    hc = Counter(e[1] for e in hook if e[0] == "stmt" and e[2] is False)
                    stops = [e for e in evs if e[0] == "stops"]
                    stops = stops[0][1] if stops else []
                    sc = Counter(sp[1][0] if isinstance(sp[1], list) else None for sp in stops)
                    st["every_line_runs"] = st.get("every_line_runs", 0) + 1
                    src_lines = src.split("\n")
                    for L in sorted((set(hc) | set(sc)) - {None}):
                        if not (isinstance(L, int) and 0 < L <= len(src_lines)) or "lambda" in src_lines[L - 1]:
                            continue  # a lambda body is a statement of its own on the same line: per-line counts are not comparable
                        if not src_lines[L - 1].startswith((" ", "\t")):
                            continue  # module-level statements outside loops: the known double-stop finding makes their counts irregular
                        st["every_line_lines"] = st.get("every_line_lines", 0) + 1
                        if hc.get(L, 0) != sc.get(L, 0):
                            text = src.split("\n")[L - 1].strip() if isinstance(L, int) and 0 < L <= len(src.split("\n")) else "?"
                            rep.violation("c18:breakpoint-count:%s" % re.sub(r"[0-9]+", "N", re.sub(r"\"[^\"]*\"", "S", text))[:50],
                                          "[%s] %s: the statement on line %s (%s) was executed %d times (statement hook) but a breakpoint on that line stopped %d times" % (
                                              flavor, cid, L, text[:80], hc.get(L, 0), sc.get(L, 0)), wit)
                            break
                    continue
                if not cfgname.startswith(("bp_", "step_")):
                    continue
                stops = [e for e in evs if e[0] == "stops"]
                stops = stops[0][1] if stops else []
                st["stops"] += len(stops)
                stop_lines = [sp[1][0] if isinstance(sp[1], list) else None for sp in stops]
                if cfgname.startswith("bp_"):
                    st["bp_runs"] += 1
                    S = meta[cid]
                    want = [l for l, _ in execs if l in S]
                    # the run may end with an error before/at a marker: a stop happens before the statement executes
                    # expected stops = marker executions in S (+ possibly one more stop on a marker line whose statement then failed)
                    collapsed, dbl = [], False
                    for l in stop_lines:
                        if collapsed and collapsed[-1] == l and l in module_level and not dbl:
                            dbl = True  # second stop of the same module-level execution
                            known = True
                            continue
                        collapsed.append(l)
                        dbl = False
                    has_double = len(collapsed) != len(stop_lines)
                    tail_ok = collapsed[:len(want)] == want and len(collapsed) - len(want) in (0, 1) and (len(collapsed) == len(want) or ref[-1][1] == "err")
                    if not tail_ok:
                        rep.violation("c18:stops:%s" % cfgname, "[%s] %s: stop log %s is not the marker executions with breakpoints %s" % (flavor, cid, stop_lines[:40], want[:40]), wit)
                        continue
                    if has_double:
                        rep.violation("c18:double-stop:module-level", "[%s] %s: a breakpoint on a module-level statement stopped twice for one execution (stops %s)" % (flavor, cid, stop_lines[:20]), wit)
                    # (c) variables at the stop vs what the marker emits next
                    k = 0
                    seen_at = {}
                    idx = 0
                    for sp in stops:
                        l = sp[1][0] if isinstance(sp[1], list) else None
                        if l in module_level and seen_at.get("last") == l:
                            seen_at["last"] = None
                            continue
                        seen_at["last"] = l
                        # the idx-th expected execution
                        if idx >= len(want):
                            break
                        vals = [v for (ll, v) in execs if True]
                        ex = [(ll, v) for (ll, v) in execs if ll in S][idx]
                        idx += 1
                        names = markers.get(l, (0, []))[1]
                        if names and isinstance(sp[2], list) and ex[0] == l and ex[1]:
                            want_s = shown(ex[1][0])
                            have = [v for v in sp[2] if isinstance(v, list) and v[0] == names[0]]
                            if want_s is not None and have:
                                st["var_checks"] += 1
                                if have[0][1] != want_s:
                                    rep.violation("c18:variable-value", "[%s] %s: at the stop on line %d the debugger shows %s = %r but the statement then emits %r" % (
                                        flavor, cid, l, names[0], have[0][1], want_s), wit)
                                    break
                        if cfgname == "bp_badeval":
                            if isinstance(sp[3], list) and sp[3] and sp[3][0] != "err":
                                rep.violation("c18:evaluate-malformed-accepted", "[%s] %s: evaluate('1 +') at a stop gave %s" % (flavor, cid, sp[3]), wit)
                                break
                        elif sp[3] is not None and sp[3] != ["2", "int"]:
                            rep.violation("c18:evaluate", "[%s] %s: evaluate('1 + 1') at a stop gave %s" % (flavor, cid, sp[3]), wit)
                            break
                elif cfgname == "step_into":
                    st["step_runs"] += 1
                    if len(stop_lines) >= 3000:
                        # the runner stops stepping after max_stops stops and lets the program finish: nothing can be said about later markers
                        rep.inconc("step-into: stop budget (3000) exhausted before the end of the program", cid)
                        continue
                    # every marker execution appears once, in order, in the stop log (module-level ones may appear twice: known)
                    it = iter(stop_lines)
                    ok = True
                    for l, _ in execs:
                        found = False
                        for sl in it:
                            if sl == l:
                                found = True
                                break
                        if not found:
                            ok = False
                            rep.violation("c18:step-into-missed", "[%s] %s: stepping in from the first statement never stopped at the execution of marker line %d (stops: %s...)" % (
                                flavor, cid, l, stop_lines[:30]), wit)
                            break
                    if ok:
                        # no marker line stops more often than it executes (x2 at module level)
                        from collections import Counter
                        cs, ce = Counter(stop_lines), Counter(l for l, _ in execs)
                        for l, c in cs.items():
                            if l in markers and l not in module_level and c > ce.get(l, 0) + (1 if ref[-1][1] == "err" else 0):
                                rep.violation("c18:step-into-duplicate", "[%s] %s: marker line %d executed %d times but step-into stopped there %d times" % (flavor, cid, l, ce.get(l, 0), c), wit)
                                break
                else:
                    st["step_runs"] += 1
                    nlines = src.count("\n") + 1
                    bad = [l for l in stop_lines if not (isinstance(l, int) and 1 <= l <= nlines)]
                    if bad:
                        rep.violation("c18:step-stop-location", "[%s] %s: stop at a location that is not a statement of the file: %s" % (flavor, cid, bad[:5]), wit)
            if len(samples) < 2 and len(execs) > 5:
                samples.append({"program": "p%d" % i, "marker_lines": sorted(markers)[:20], "src_head": src[:700]})
    rep.coverage = {
        "evaluations": st["configs"],
        "distinct_nontrivial": len(distinct),
        "rule": "evaluation = one (program, instrumentation configuration) run compared with the uninstrumented run and, for debugger runs, its stop log judged against the marker executions; distinct = distinct baseline transcripts",
        "samples": samples,
        "programs": n,
        "profile_mode_runs": st["profiles"],
        "every_line_breakpoint_runs": st.get("every_line_runs", 0),
        "lines_with_stop_count_compared_to_hook_count": st.get("every_line_lines", 0),
        "breakpoint_runs": st["bp_runs"],
        "stepping_runs": st["step_runs"],
        "stops_observed": st["stops"],
        "variable_value_checks": st["var_checks"],
        "statement_hook_calls_observed": st["hook_events"],
        "flavors": flavors,
    }
    rep.assumptions = ["step-over / step-out are only required to leave the transcript unchanged, not to hang, and to stop at statements (the adapter documents them as approximate)",
                       "a stop may occur on a marker line whose statement then fails (the stop precedes the execution)"]
    rep.finish(sanity_ok=st["stops"] > n and st["var_checks"] > 20 and st["profiles"] > n, sanity_msg="too few stops / variable checks / profile runs")


def replay(rep):
    w = rep["witness"]
    svh = os.path.join(common.build(w.get("flavor", "dbg")), "svh")
    print(w["src"])
    print(w["config"])
    return 1
