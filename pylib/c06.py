"""C06: the parser builds the tree the grammar prescribes, and printing it round-trips.
Oracle (a): CPython's parser on the same text: accept/reject must agree and the fully parenthesised canonical
S-expressions must be equal, for texts of the shared grammar (texts whose CPython tree contains a node Starlark does not
have are skipped and counted). Oracle (b): parse(print(parse(x))) is structurally equal and print is a fixed point."""
import json
import os
import random

import common
import gen_core
import gen_full
import gen_tokens
import ref_ast
from common import NCPU, Report, log, seed

# dialect with everything of the shared grammar on (no f-strings: not in the shared alphabet)
SHARED_DIALECT = {"def": True, "lambda": True, "load": True, "kwonly": True, "posonly": True, "types": "enable", "reexport": True, "toplevel": True, "fstrings": False}

# Texts CPython accepts but Starlark rejects on purpose (documented intended differences): recognised by message
INTENDED_REJECT = [
    ("for x in a, b:", None),
]


def texts(tier, s):
    rng = random.Random("%d/c06" % s)
    out = []
    out += [("pair", t) for t in gen_tokens.operator_pairs()]
    out += [("order", t) for t in gen_tokens.param_and_arg_orders()]
    out += [("form", t) for t in gen_tokens.STATEMENT_FORMS]
    n = 4000 if tier == "quick" else common.tscale(120000)
    for i in range(n):
        r = random.Random("%d/c06/%d" % (s, i))
        k = i % 4
        if k == 0:
            out.append(("rand-expr", "x = %s\n" % gen_tokens.random_expr(r)))
        elif k == 1:
            out.append(("rand-stmt", gen_tokens.random_stmt(r)))
        elif k == 2:
            base = gen_tokens.random_stmt(r) if r.random() < 0.5 else r.choice(gen_tokens.STATEMENT_FORMS)
            out.append(("mutated", gen_tokens.mutate(r, base)))
        else:
            src = gen_core.render(gen_core.gen_program(r, max_stmts=8, inject_fail=0.0))
            out.append(("mutated-program", gen_tokens.mutate(r, src) if r.random() < 0.7 else src))
    return out


def run(tier):
    rep = Report("C06", tier)
    s = seed()
    ts = texts(tier, s)
    # round-trip corpus: full dialect programs from the other generators
    rt = []
    nrt = 300 if tier == "quick" else common.tscale(8000)
    for i in range(nrt):
        r = random.Random("%d/c06rt/%d" % (s, i))
        rt.append(gen_full.render(gen_full.gen_program(r, heap_heavy=(i % 2 == 0), max_stmts=r.choice([10, 30]), inject_fail=0.2)))
    tdir = "/repo/starlark/testcases"
    if os.path.isdir(tdir):
        for root, _, files in os.walk(tdir):
            for f in sorted(files)[:200]:
                try:
                    rt.append(open(os.path.join(root, f), encoding="utf-8").read())
                except Exception:
                    pass
    log("[C06] %d grammar texts, %d round-trip modules" % (len(ts), len(rt)))
    cases = [{"id": "g%d" % i, "src": t, "dialects": [SHARED_DIALECT], "roundtrip": True} for i, (_, t) in enumerate(ts)]
    cases += [{"id": "r%d" % i, "src": t, "dialects": ["internal"], "roundtrip": True, "sexp": False} for i, t in enumerate(rt)]
    svh = os.path.join(common.build("dbg"), "svh")
    batch = common.run_cases(svh, "parse", cases, "c06", shards=NCPU, timeout=3000)
    for cr in batch.crashes:
        rep.violation("c06:" + common.crash_signature(cr), "parser crashed on %r" % cr["case"]["src"][:200], {"case": cr["case"], "crash": cr.get("confirm")})
    for inc in batch.inconclusive:
        rep.inconc(inc["why"], inc.get("id"))
    st = {"both_accept": 0, "both_reject": 0, "unsupported": 0, "rt_ok": 0, "kinds": {}}
    why_unsupported = {}
    distinct = set()
    samples = []
    for i, (kind, t) in enumerate(ts):
        evs = batch.events.get("g%d" % i)
        if evs is None:
            continue
        ref = ref_ast.parse(t)
        first = evs[0]
        wit = {"src": t, "kind": kind}
        if first[0] == "panic":
            rep.violation("c06:panic:" + str(first[2])[:80], "parser panicked on %r: %s" % (t[:120], first[2]), wit)
            continue
        star_ok = first[0] == "ok"
        if ref[0] == "unsupported":
            st["unsupported"] += 1
            why_unsupported[ref[1]] = why_unsupported.get(ref[1], 0) + 1
        elif ref[0] == "reject":
            if star_ok:
                rep.violation("c06:accepts-what-reference-rejects:%s" % _shape(t), "starlark accepts %r which the reference grammar rejects (%s)" % (t[:160], ref[1]), wit)
            else:
                st["both_reject"] += 1
        else:
            if not star_ok:
                rep.violation("c06:rejects-what-reference-accepts:%s" % _shape(t), "starlark rejects %r (%s) which the reference grammar accepts" % (t[:160], first[2]), wit)
            elif first[2] != ref[1]:
                rep.violation("c06:tree-differs:%s" % _shape(t), "different grouping for %r: starlark %s reference %s" % (t[:160], json.dumps(first[2])[:300], json.dumps(ref[1])[:300]), wit)
            else:
                st["both_accept"] += 1
                st["kinds"][kind] = st["kinds"].get(kind, 0) + 1
                distinct.add(json.dumps(ref[1]))
                if len(samples) < 4 and kind in ("pair", "rand-expr") and len(t) > 25:
                    samples.append({"text": t, "tree": ref[1]})
        _roundtrip(rep, evs, t, st)
    for i, t in enumerate(rt):
        evs = batch.events.get("r%d" % i)
        if evs is None:
            continue
        if evs and evs[0][0] == "panic":
            rep.violation("c06:panic:" + str(evs[0][2])[:80], "parser panicked on a generated module: %s" % evs[0][2], {"src": t})
            continue
        _roundtrip(rep, evs, t, st)
    rep.coverage = {
        "evaluations": st["both_accept"] + st["both_reject"] + st["rt_ok"] + len(rep.violations),
        "distinct_nontrivial": len(distinct),
        "rule": "evaluation = one text parsed by both parsers (accept/reject and canonical tree compared) or one module printed and re-parsed; distinct_nontrivial = distinct reference trees that matched",
        "samples": samples,
        "texts": len(ts),
        "accepted_by_both_with_equal_tree": st["both_accept"],
        "rejected_by_both": st["both_reject"],
        "outside_shared_grammar_skipped": st["unsupported"],
        "skip_reasons": dict(sorted(why_unsupported.items(), key=lambda x: -x[1])[:15]),
        "round_trips_ok": st["rt_ok"],
        "matching_by_kind": st["kinds"],
        "operator_pair_contexts_exhaustive": True,
    }
    rep.assumptions = ["CPython's parser+compiler front end defines accept/reject for the shared token alphabet",
                       "constructs listed in DESIGN.md C06 (chained comparison/assignment, positional after *args, unparenthesised tuple as for-iterable, ...) are outside the shared grammar"]
    rep.finish(sanity_ok=st["both_accept"] > 3000 and st["both_reject"] > 300 and st["rt_ok"] > 300, sanity_msg="too few comparisons")


def _roundtrip(rep, evs, t, st):
    for e in evs:
        if e[0] == "rt_ok":
            st["rt_ok"] += 1
        elif e[0] == "rt_reparse_failed":
            rep.violation("c06:print-unparsable:%s" % _shape(t), "printing %r gives text that does not parse (%s): %r" % (t[:120], e[1], e[2][:200]), {"src": t, "printed": e[2]})
        elif e[0] == "rt_tree_differs":
            rep.violation("c06:print-changes-tree:%s" % _shape(t), "printing %r gives %r which parses to a different tree" % (t[:120], e[1][:200]), {"src": t, "printed": e[1]})
        elif e[0] == "rt_not_fixed_point":
            rep.violation("c06:print-not-fixed-point:%s" % _shape(t), "print(parse(print(parse(x)))) differs for %r: %r vs %r" % (t[:100], e[1][:150], e[2][:150]), {"src": t})


def _shape(t):
    import re
    return re.sub(r"\s+", " ", re.sub(r"[0-9]+", "N", t)).strip()[:50]


def replay(rep):
    w = rep["witness"]
    svh = os.path.join(common.build("dbg"), "svh")
    c = {"id": "r", "src": w["src"], "dialects": [SHARED_DIALECT], "roundtrip": True}
    b = common.run_cases(svh, "parse", [c], "c06_replay", shards=1)
    print(repr(w["src"]))
    print("starlark:", json.dumps(b.events.get("r"))[:2000])
    print("reference:", json.dumps(ref_ast.parse(w["src"]))[:2000])
    return 1
