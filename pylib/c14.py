"""C14: evaluation is deterministic across runs, processes and memory layouts.
Monitor: the same batch is executed in K child processes that differ in everything the property lists (ASLR on/off,
seeded allocation/heap noise before the batch, main vs spawned thread, batch order, per-process hash seeds); every
child writes the complete transcript (prints, results, full error renderings with suggestions and call stacks,
typechecker diagnostics / type map / interface, lint output) and the transcripts are compared byte for byte."""
import json
import os
import random
import re

import common
import gen_full
from common import NCPU, Report, log, seed

IDENTITY_TEMPLATES = [
    "def f(a, b=2):\n    return a\nl = lambda x: x\nprint(f, l, len, int, str(f), repr(l), [f, l], {\"k\": f})\nemit(str(f), repr(len), str(int), str(type(f)))\n",
    "R = record(x=int, y=str)\nE = enum(\"a\", \"b\")\nr = R(x=1, y=\"s\")\nprint(R, E, r, E(\"a\"), E.values(), dir(r), dir(R), dir(E))\nemit(str(R), repr(r), str(E(\"b\")), json.encode(r), hash(\"abc\"), hash(\"\"))\n",
    "s = struct(z=1, a=2, m=[3], f=len)\nprint(s, dir(s), s.to_json() if hasattr(s, \"to_json\") else None)\nemit(str(s), dir(s), json.encode(struct(z=1, a=2)))\n",
    "x = set([3, \"a\", (1, 2), 1.5, True, None, \"b\", 2**10 if False else 1024])\nprint(x, list(x), sorted([str(e) for e in x]))\nd = {(1, 2): 1, True: 2, 7: 3, \"k\": 4, 1.5: 5, None: 6}\nprint(d, list(d.keys()), d.items())\nemit(str(x), str(d), json.encode({\"b\": 1, \"a\": [1, 2, {\"z\": None}]}))\n",
    "l = [1]\nm = l.append\np = partial(len, [1])\nprint(m, p, [m], str(m), repr(p), \"a\".join, {}.get)\nemit(str(m), str(p))\n",
    "print(dir(\"\"), dir([]), dir({}), dir(set()), dir(1), dir(None), dir(len))\nemit(dir(struct(b=1, a=2, c=3)))\n",
    "emit([hash(s) for s in [\"\", \"a\", \"ab\", \"abc\" * 10, \"\\u00e9\"]])\nemit({hash(\"k%d\" % i): i for i in range(20)})\n",
    "def outer():\n    def inner(x):\n        return undefined_name_xyz + x\n    return inner(1)\nouter()\n",
    "x = {\"alpha\": 1, \"alpine\": 2, \"alpaca\": 3}\ns = struct(alpha=1, alpine=2)\nprint(s.alpin)\n",
    "values = [1, 2]\nvalue = 3\nprint(valuee)\n",
    "def f(first_arg, second_arg):\n    return first_arg\nf(1, secnd_arg=2)\n",
    "\"abc\".uper()\n",
    "[1, 2].apend(3)\n",
    "load(\"nonexistent.star\", \"x\")\n",
    "def f(x: int) -> str:\n    return x\nf(\"a\")\n",
    "fail(\"msg\", [1, 2], {\"a\": struct(b=1)})\n",
    "def r(n):\n    return r(n + 1)\nr(0)\n",
    "1 +\n",
    "def f(:\n    pass\n",
    "x = [\n",
]


def misspell(rng, src):
    """Misspell one identifier use so that the error carries a did-you-mean suggestion."""
    names = sorted(set(re.findall(r"\bv\d+\b", src)))
    if not names:
        return src
    n = rng.choice(names)
    uses = [m.start() for m in re.finditer(r"\b%s\b" % n, src)]
    if len(uses) < 2:
        return src
    at = rng.choice(uses[1:])
    return src[:at] + n + "x" + src[at + len(n):]


def gen_cases(s, n):
    cases = []
    for i in range(n):
        rng = random.Random("%d/c14/%d" % (s, i))
        if i % 6 == 5:
            src = rng.choice(IDENTITY_TEMPLATES)
        else:
            src = gen_full.render(gen_full.gen_program(rng, heap_heavy=(i % 2 == 0), max_stmts=rng.choice([12, 25, 40]), inject_fail=0.4))
            if i % 6 == 4:
                src = misspell(rng, src)
        lib = "LIBV = [1, {\"a\": (2, 3)}]\ndef libf(x):\n    return [x, LIBV]\ndef libfail(x):\n    return x.nosuchattr\n"
        use_lib = rng.random() < 0.4
        if use_lib:
            src = 'load("lib.star", "LIBV", "libf", "libfail")\nprint(libf, libf(1), LIBV)\n' + src + ("libfail(1)\n" if rng.random() < 0.3 else "")
        units = ([{"file": "lib.star", "src": lib, "freeze": True}] if use_lib else []) + [{"file": "p%d.star" % i, "src": src}]
        cases.append({"id": "p%d" % i, "cfg": {"dialect": "internal", "full_errors": True}, "units": units})
    return cases


def run(tier):
    rep = Report("C14", tier)
    s = seed()
    n = 800 if tier == "quick" else common.tscale(20000)
    K = 4 if tier == "quick" else 8
    cases = gen_cases(s, n)
    tcases = [{"id": c["id"], "src": c["units"][-1]["src"], "file": c["units"][-1]["file"], "dialect": "internal", "eval": False} for c in cases if len(c["units"]) == 1]
    flavors = ["rel"] if tier == "quick" else ["rel", "dbg"]
    compared = 0
    distinct = set()
    children_desc = []
    kinds = {"ok": 0, "err": 0, "with_suggestion": 0, "tc_errors": 0, "lints": 0}
    for flavor in flavors:
        svh = os.path.join(common.build(flavor), "svh")
        outs = []
        for k in range(K):
            rng = random.Random("%d/c14child/%d" % (s, k))
            order = list(cases)
            torder = list(tcases)
            if k > 0:
                rng.shuffle(order)
                rng.shuffle(torder)
            opts = {}
            if k % 2 == 1:
                opts["noise"] = str(rng.randint(1, 1 << 30))
            if k % 4 >= 2:
                opts["main_thread"] = "1"
            prefix = ["setarch", "x86_64", "-R"] if k % 2 == 0 and k > 0 else None
            desc = {"child": k, "aslr": "off" if prefix else "on", "noise": "noise" in opts, "thread": "main" if "main_thread" in opts else "spawned", "order": "shuffled" if k else "generation"}
            if flavor == flavors[0]:
                children_desc.append(desc)
            b1 = common.run_cases(svh, "run", order, "c14_%s_%d" % (flavor, k), opts=opts, shards=max(2, NCPU // 2), timeout=3000, prefix=prefix)
            b2 = common.run_cases(svh, "typecheck", torder, "c14t_%s_%d" % (flavor, k), opts=opts, shards=max(2, NCPU // 4), timeout=3000, prefix=prefix)
            for b in (b1, b2):
                for cr in b.crashes:
                    rep.violation("c14:" + common.crash_signature(cr), "[%s child %d] crash in %s" % (flavor, k, cr["id"]), {"flavor": flavor, "case": cr["case"], "crash": cr.get("confirm")})
                for inc in b.inconclusive:
                    rep.inconc(inc["why"], inc.get("id"))
            outs.append((desc, b1.events, b2.events))
        ref_desc, ref_run, ref_tc = outs[0]
        for desc, evr, evt in outs[1:]:
            for which, a, b, cs in (("run", ref_run, evr, cases), ("typecheck", ref_tc, evt, tcases)):
                for c in cs:
                    cid = c["id"]
                    if cid not in a or cid not in b:
                        continue
                    ea = [e for e in a[cid] if e[0] != "ctr"]
                    eb = [e for e in b[cid] if e[0] != "ctr"]
                    if any(e[0] == "panic" and common.is_oom_text(str(e[1])) for e in ea + eb):
                        rep.inconc("allocation failure", cid)
                        continue
                    compared += 1
                    if json.dumps(ea) != json.dumps(eb):
                        k = 0
                        while k < min(len(ea), len(eb)) and ea[k] == eb[k]:
                            k += 1
                        x = json.dumps(ea[k])[:300] if k < len(ea) else "<end>"
                        y = json.dumps(eb[k])[:300] if k < len(eb) else "<end>"
                        rep.violation("c14:%s:%s" % (which, _focus(x, y)), "[%s] %s of %s differs between child 0 %s and child %s: event %d: %s  vs  %s" % (
                            flavor, which, cid, json.dumps(ref_desc), json.dumps(desc), k, x, y), {"flavor": flavor, "case": c, "which": which, "children": [ref_desc, desc]})
        for c in cases:
            evs = ref_run.get(c["id"])
            if not evs:
                continue
            distinct.add(hash(json.dumps(evs[:30])))
            for e in evs:
                if e[0] == "r":
                    if e[3] == "ok":
                        kinds["ok"] += 1
                    else:
                        kinds["err"] += 1
                        if isinstance(e[4], dict) and "did you mean" in (e[4].get("full", "") + e[4].get("msg", "")):
                            kinds["with_suggestion"] += 1
        for c in tcases:
            for e in ref_tc.get(c["id"], []):
                if e[0] == "typecheck":
                    kinds["tc_errors"] += len(e[1]["errors"])
                if e[0] in ("lint", "lint_names"):
                    kinds["lints"] += len(e[1])
    rep.coverage = {
        "evaluations": compared,
        "distinct_nontrivial": len(distinct),
        "rule": "evaluation = one file's complete transcript (run mode: prints, emitted values, results, full error text incl. suggestions and call stack; typecheck mode: diagnostics, type map, lints) compared between the reference child and another child process; "
                "distinct_nontrivial = distinct reference transcripts",
        "samples": [{"id": cases[5]["id"], "src_head": cases[5]["units"][-1]["src"][:500]}, {"children": children_desc}],
        "children": children_desc,
        "files": n,
        "reference_outcomes": kinds,
        "flavors": flavors,
    }
    rep.assumptions = ["each child process gets fresh std RandomState keys automatically; ASLR is disabled with setarch -R in some children",
                       "profiling / timing data is not part of the transcript"]
    rep.finish(sanity_ok=compared > n and kinds["err"] > 20 and kinds["with_suggestion"] > 0, sanity_msg="too few comparisons / no failing programs / no suggestions exercised")


def _focus(a, b):
    return re.sub(r"[0-9]+", "N", a)[:50]


def replay(rep):
    w = rep["witness"]
    svh = os.path.join(common.build(w.get("flavor", "rel")), "svh")
    mode = "run" if w.get("which", "run") == "run" else "typecheck"
    outs = []
    for k, (opts, prefix) in enumerate([({}, None), ({"noise": "12345", "main_thread": "1"}, None), ({"noise": "777"}, ["setarch", "x86_64", "-R"])]):
        b = common.run_cases(svh, mode, [w["case"]], "c14_replay%d" % k, opts=opts, shards=1, prefix=prefix)
        outs.append(json.dumps([e for e in b.events.get(w["case"]["id"], []) if e[0] != "ctr"]))
    print(outs[0][:3000])
    same = all(o == outs[0] for o in outs)
    print("same" if same else "DIFFERENT")
    return 0 if same else 1
