"""C12: a container cannot be mutated while iterated and is released when iteration ends.
Oracle: the lock model  locked(X) <=> control is inside an iteration extent over X.
Workload: enumerated snippets  kind x construct x mutator x alias path x exit x nesting depth."""
import json
import os
import random

import common
from common import NCPU, Report, log, seed

# classification of every method the live tree offers (unknown ones are reported as unclassified)
MUTATING = {
    "list": {"append", "clear", "extend", "insert", "pop", "remove"},
    "dict": {"clear", "pop", "popitem", "setdefault", "update"},
    "set": {"add", "clear", "discard", "pop", "remove", "update"},
}
NON_MUTATING = {
    "list": {"index"},
    "dict": {"get", "items", "keys", "values"},
    "set": {"difference", "intersection", "issubset", "issuperset", "symmetric_difference", "union"},
}

CTOR = {"list": "[1, 2, 3]", "dict": '{"a": 1, "b": 2, "c": 3}', "set": "set([1, 2, 3])"}
# (name, statement(s) performing the mutation on alias A) ; every one really changes size or contents
MUTATORS = {
    "list": [
        ("append", "A.append(9)"), ("extend", "A.extend([9])"), ("insert", "A.insert(0, 9)"), ("pop", "A.pop()"),
        ("remove", "A.remove(2)"), ("clear", "A.clear()"), ("setitem", "A[0] = 9"), ("iadd", "A += [9]"), ("setitem_aug", "A[1] += 5"),
    ],
    "dict": [
        ("setitem_new", 'A["z"] = 9'), ("setitem_existing", 'A["a"] = 9'), ("pop", 'A.pop("a")'), ("popitem", "A.popitem()"),
        ("setdefault", 'A.setdefault("z", 1)'), ("update_pos", 'A.update({"z": 1})'), ("update_kw", "A.update(z=1)"), ("clear", "A.clear()"),
        ("ior", 'A |= {"z": 1}'), ("setitem_aug", 'A["b"] += 5'),
    ],
    "set": [
        ("add", "A.add(9)"), ("remove", "A.remove(2)"), ("discard", "A.discard(2)"), ("pop", "A.pop()"), ("clear", "A.clear()"), ("update", "A.update([9])"),
    ],
}
PROBE = {"list": ["X.append(77)", "X.pop()"], "dict": ['X["probe"] = 1', 'X.pop("probe")'], "set": ["X.add(77)", "X.remove(77)"]}
ALIASES = ["name", "alias", "holder", "param"]
EXITS = ["exhaust", "break", "continue", "return", "error1", "error2", "error3"]
CONSTRUCTS = ["for", "for_nested_same", "listcomp", "listcomp_later", "dictcomp", "sorted_key", "min_key", "max_key", "map", "filter"]


def snippet(n, kind, construct, mut, alias, exit_, depth):
    mname, mstmt = mut
    L = []
    a = L.append
    a("def case%d():" % n)
    a("    X = %s" % CTOR[kind])
    a("    Y = [10, 20]")
    a("    Z = {\"p\": 1}")
    a("    H = [X]")
    a("    log = []")
    # the mutation function, using the chosen alias path
    if alias == "name":
        a("    def mutfn():")
        a("        A = X")
        for st in mstmt.split("\n"):
            a("        " + st)
    elif alias == "alias":
        a("    B = X")
        a("    def mutfn():")
        a("        A = B")
        for st in mstmt.split("\n"):
            a("        " + st)
    elif alias == "holder":
        a("    def mutfn():")
        a("        A = H[0]")
        for st in mstmt.split("\n"):
            a("        " + st)
    else:
        a("    def inner(A):")
        for st in mstmt.split("\n"):
            a("        " + st)
        a("    def mutfn():")
        a("        inner(X)")
    a("    def boom1():")
    a("        fail(\"boom\")")
    a("    def boom2():")
    a("        return boom1()")
    a("    def boom3():")
    a("        return [boom2() for _ in [1]]")
    a("    def obs():")
    a("        r = attempt(mutfn)")
    a("        log.append((r[0], repr(X)))")
    a("        return 0")
    exit_stmt = {"exhaust": None, "break": "break", "continue": "continue", "return": "return 5",
                 "error1": "boom1()", "error2": "boom2()", "error3": "boom3()"}[exit_]
    exit_expr = {"error1": "boom1()", "error2": "boom2()", "error3": "boom3()"}.get(exit_, "0")
    a("    def body():")
    ind = "        "
    # outer loops over other containers (nesting depth)
    outer_vars = ["Y", "Z"][: depth - 1]
    for ov in outer_vars:
        a(ind + "for _o%s in %s:" % (ov, ov))
        ind += "    "
    if construct == "for":
        a(ind + "for e in X:")
        a(ind + "    obs()")
        if exit_stmt:
            a(ind + "    " + exit_stmt)
    elif construct == "for_nested_same":
        a(ind + "for e in X:")
        a(ind + "    for e2 in X:")
        a(ind + "        obs()")
        if exit_stmt:
            a(ind + "        " + exit_stmt)
        a(ind + "    obs()")  # inner loop ended, outer extent still active: must still be locked
        a(ind + "    break")
    elif construct == "listcomp":
        a(ind + "_r = [(obs(), %s) for e in X]" % exit_expr)
    elif construct == "listcomp_later":
        a(ind + "_r = [(obs(), %s) for q in [1, 2] for e in X]" % exit_expr)
    elif construct == "dictcomp":
        a(ind + "_r = {e: (obs(), %s) for e in X}" % exit_expr)
    elif construct in ("sorted_key", "min_key", "max_key"):
        fn = construct.split("_")[0]
        a(ind + "def cb(e):")
        a(ind + "    obs()")
        a(ind + "    _x = %s" % exit_expr)
        a(ind + "    return 0")
        a(ind + "_r = %s(X, key=cb)" % fn)
    elif construct in ("map", "filter"):
        a(ind + "def cb(e):")
        a(ind + "    obs()")
        a(ind + "    _x = %s" % exit_expr)
        a(ind + "    return True")
        a(ind + "_r = %s(cb, X)" % construct)
    a("        return 7")
    a("    r = attempt(body)")
    a("    def probe():")
    for st in PROBE[kind]:
        a("        " + st)
    a("        return repr(X)")
    a("    def probe_y():")
    a("        Y.append(1)")
    a("        Z[\"q\"] = 2")
    a("        return 1")
    a("    emit(%d, log, r[0], attempt(probe), attempt(probe_y), repr(X))" % n)
    return "\n".join(L) + "\n"


def enumerate_space(tier, rng):
    space = []
    for kind in ("list", "dict", "set"):
        for construct in CONSTRUCTS:
            for mut in MUTATORS[kind]:
                for alias in ALIASES:
                    for exit_ in EXITS:
                        if construct not in ("for", "for_nested_same") and exit_ in ("break", "continue", "return"):
                            continue  # comprehensions/builtins have no such exits
                        for depth in (1, 2, 3):
                            space.append((kind, construct, mut, alias, exit_, depth))
    return space


def expected_repr(kind):
    return {"list": "[1, 2, 3]", "dict": '{"a": 1, "b": 2, "c": 3}', "set": "set([1, 2, 3])"}[kind]


BUILTINS = ("sorted_key", "min_key", "max_key", "map", "filter")


def judge(rep, desc, ev, flavor, stats):
    kind, construct, mut, alias, exit_, depth = desc
    n, logv, rkind, probe, probe_y, final = ev[1], ev[2], ev[3], ev[4], ev[5], ev[6]
    attempts = [(x[1][1:], x[2][1:]) for x in logv[1:]]
    what = "%s/%s/%s/%s/%s/d%d" % (kind, construct, mut[0], alias, exit_, depth)
    wit = {"flavor": flavor, "desc": [kind, construct, list(mut), alias, exit_, depth]}
    stats["attempts"] += len(attempts)
    if not attempts:
        rep.violation("c12:no-attempt:%s:%s" % (construct, exit_), "%s: the iteration body never ran" % what, wit)
        return
    intact = expected_repr(kind)
    cls = "builtin" if construct in BUILTINS else ("comp" if "comp" in construct else "for")
    for i, (res, content) in enumerate(attempts):
        if res == "ok":
            if cls == "builtin":
                # a builtin may have finished consuming X before calling back: then the mutation is legitimate
                stats["builtin_unlocked"] += 1
                continue
            rep.violation("c12:mutated-during:%s:%s:%s" % (kind, cls, mut[0]),
                          "%s: mutation #%d succeeded inside the iteration extent (content now %s)" % (what, i, content), wit)
            return
        if content != intact and all(r == "err" for r, _ in attempts[: i + 1]):
            rep.violation("c12:changed-by-failed-mutation:%s:%s" % (kind, mut[0]),
                          "%s: failed mutation #%d changed the container to %s" % (what, i, content), wit)
            return
    # outcome of the construct
    want_err = exit_.startswith("error")
    if (rkind[1:] == "err") != want_err:
        rep.violation("c12:outcome:%s:%s" % (construct, exit_), "%s: construct ended with %s" % (what, rkind), wit)
        return
    # released after the iteration ended
    if probe[1] != "sok":
        sig = "c12:still-locked-after:%s:%s:%s" % ("error" if want_err else exit_, cls, kind)
        if want_err and cls in ("for", "comp"):
            sig = "c12:still-locked-after:error:for-or-comprehension"
        rep.violation(sig,
                      "%s: after the iteration ended (%s) the container is still immutable: %s" % (what, exit_, json.dumps(probe)[:160]), wit)
        return
    if probe_y[1] != "sok":
        rep.violation("c12:still-locked-after:error:for-or-comprehension" if want_err else "c12:outer-still-locked-after:%s:%s" % (exit_, cls),
                      "%s: after the iteration ended (%s) an enclosing loop's container is still immutable: %s" % (what, exit_, json.dumps(probe_y)[:160]), wit)
        return
    stats["ok"] += 1


def host_cases():
    """Error exit at module level caught by the host, followed by a second evaluation on the same module."""
    cases = []
    for kind in ("list", "dict", "set"):
        for construct, body in (("for", "for e in X:\n    fail(\"boom\")\n"), ("for_in_def", "def f():\n    for e in X:\n        fail(\"boom\")\nf()\n"),
                                ("listcomp", "def b():\n    fail(\"boom\")\n_r = [b() for e in X]\n"),
                                ("sorted_key", "def b(e):\n    fail(\"boom\")\n_r = sorted(X, key=b)\n")):
            for reuse in (False, True):
                src = "X = %s\n%s" % (CTOR[kind], body)
                probe = "def probe():\n%s    return repr(X)\nemit(attempt(probe))\n" % "".join("    %s\n" % st for st in PROBE[kind])
                cases.append(({"id": "host_%s_%s_%d" % (kind, construct, reuse), "cfg": {"dialect": "extended", "reuse_eval": reuse},
                               "units": [{"file": "h.star", "src": src, "evals": [{"src": probe}]}]}, (kind, construct, reuse)))
    return cases


def run(tier):
    rep = Report("C12", tier)
    s = seed()
    rng = random.Random("%d/c12" % s)
    space = enumerate_space(tier, rng)
    log("[C12] %d snippets (complete enumeration)" % len(space))
    per = 150
    cases = []
    for ci in range(0, len(space), per):
        chunk = space[ci:ci + per]
        src = "".join(snippet(ci + i, *d) for i, d in enumerate(chunk))
        src += "emit(\"dir\", dir([]), dir({}), dir(set()))\n" if ci == 0 else ""
        src += "".join("case%d()\n" % (ci + i) for i in range(len(chunk)))
        cases.append({"id": "b%d" % (ci // per), "cfg": {"dialect": "extended"}, "units": [{"file": "c12.star", "src": src}]})
    hcases = host_cases()
    flavors = ["dbg"] if tier == "quick" else ["dbg", "rel", "asan"]
    stats = {"ok": 0, "attempts": 0, "builtin_unlocked": 0, "host": 0}
    judged = 0
    for flavor in flavors:
        try:
            svh = os.path.join(common.build(flavor), "svh")
        except common.BuildError as e:
            if flavor == "dbg":
                raise
            rep.inconc("flavor %s unavailable" % flavor, str(e)[-300:])
            continue
        env = {"ASAN_OPTIONS": "abort_on_error=1:detect_leaks=0"} if flavor == "asan" else None
        batch = common.run_cases(svh, "run", cases + [h[0] for h in hcases], "c12_" + flavor, shards=NCPU, timeout=3000, env_extra=env, asan_like=(flavor == "asan"))
        for cr in batch.crashes:
            rep.violation(common.crash_signature(cr), "runner crashed in %s" % cr["id"], {"flavor": flavor, "crash": cr.get("confirm"), "case": cr["case"]["id"]})
        for inc in batch.inconclusive:
            rep.inconc(inc["why"], inc.get("id"))
        for c in cases:
            evs = batch.events.get(c["id"])
            if evs is None:
                continue
            bad = [e for e in evs if e[0] == "r" and e[3] != "ok"]
            if bad:
                rep.violation("c12:harness", "snippet module failed: %s" % json.dumps(bad)[:400], {"case": c["id"]})
                continue
            for e in evs:
                if e[0] == "panic":
                    rep.violation("c12:panic", "panic: %s" % e[1], {"case": c["id"]})
                if e[0] != "e":
                    continue
                if e[1] == "sdir":
                    for kind, names in zip(("list", "dict", "set"), e[2:5]):
                        live = set(x[1:] for x in names[1:])
                        unk = live - MUTATING[kind] - NON_MUTATING[kind]
                        if unk:
                            rep.inconc("unclassified methods on %s: %s (not covered by the mutator catalogue)" % (kind, sorted(unk)))
                    continue
                n = int(e[1][1:])
                judge(rep, space[n], e, flavor, stats)
                judged += 1
        for hc, (kind, construct, reuse) in hcases:
            evs = batch.events.get(hc["id"])
            if evs is None:
                continue
            em = [e for e in evs if e[0] == "e"]
            first = [e for e in evs if e[0] == "r" and e[2] == 0]
            if not first or first[0][3] != "err":
                rep.violation("c12:host-harness", "host case %s: first evaluation did not fail" % hc["id"], {"case": hc})
                continue
            stats["host"] += 1
            cls = "builtin" if construct == "sorted_key" else ("comp" if "comp" in construct else "for")
            if not em or em[0][1][1] != "sok":
                rep.violation("c12:still-locked-after:error:for-or-comprehension" if cls in ("for", "comp") else "c12:still-locked-after:error:%s:%s" % (cls, kind),
                              "host/%s/%s/reuse_eval=%s: after an error escaped the iteration and the host evaluated again on the same module, the container is still immutable: %s"
                              % (kind, construct, reuse, json.dumps(em)[:200]), {"flavor": flavor, "case": hc})
    rep.coverage = {
        "evaluations": judged + stats["host"] * len(flavors) // max(1, len(flavors)),
        "distinct_nontrivial": len(space) + len(hcases),
        "rule": "evaluation = one snippet (container kind x iterating construct x mutating operation x alias path x way of leaving x nesting depth) executed and judged against the lock model; "
                "every snippet is distinct and non-trivial when its iteration body ran at least once (checked)",
        "samples": [{"desc": [d[0], d[1], d[2][0], d[3], d[4], d[5]], "source": snippet(0, *d)} for d in (space[0], space[len(space) // 2])],
        "exhaustive": True,
        "mutation_attempts_observed": stats["attempts"],
        "snippets_conforming": stats["ok"],
        "builtin_callbacks_that_found_the_container_unlocked": stats["builtin_unlocked"],
        "host_level_error_exit_cases": len(hcases),
        "flavors": flavors,
    }
    rep.assumptions = ["for builtins that consume X and call back, a successful mutation inside the callback is accepted (the builtin may have finished iterating)",
                       "no-op operations (extend([]), update({}), discard(absent)) are not in the catalogue: the property speaks of changes"]
    rep.finish(sanity_ok=judged >= len(space) * 0.99 - 150 * len(rep.violations) and stats["attempts"] > len(space) // 2, sanity_msg="snippets not judged: %d of %d" % (judged, len(space)))


def replay(rep):
    w = rep["witness"]
    svh = os.path.join(common.build(w.get("flavor", "dbg")), "svh")
    if "desc" in w:
        d = w["desc"]
        d[2] = tuple(d[2])
        src = snippet(0, *d) + "case0()\n"
        c = {"id": "r", "cfg": {"dialect": "extended"}, "units": [{"file": "c12.star", "src": src}]}
    else:
        c = w["case"]
        src = json.dumps(c)
    batch = common.run_cases(svh, "run", [c], "c12_replay", shards=1)
    print(src)
    print(json.dumps(batch.events.get(c["id"]))[:2000])
    if "desc" in w:
        r2 = Report("C12", "replay")
        st = {"ok": 0, "attempts": 0, "builtin_unlocked": 0, "host": 0}
        for e in batch.events.get("r", []):
            if e[0] == "e":
                judge(r2, tuple(w["desc"]), e, "dbg", st)
        for v in r2.violations + r2.known:
            print(v["what"])
        return 1 if (r2.violations or r2.known) else 0
    return 1
