"""C16: runtime type checks accept exactly the values a type denotes, on every check path.
Oracle: an independent membership function over (type AST, value descriptor) following docs/types.md; corners the
documentation leaves open get agreement checks only. Paths: isinstance, parameter annotation, return annotation,
annotated assignment (local), host TypeCompiled::matches - each unfrozen and with types, values and checking functions
exported from a frozen module and used by an importer."""
import itertools
import json
import os
import random

import common
from common import NCPU, Report, log, seed

# ---------------------------------------------------------------- types: (expr text, AST)
BASE = [
    ("typing.Any", ("any",)), ("typing.Never", ("never",)), ("None", ("none",)), ("bool", ("prim", "bool")), ("int", ("prim", "int")), ("float", ("prim", "float")),
    ("str", ("prim", "str")), ("list", ("list", ("any",))), ("dict", ("dict", ("any",), ("any",))), ("tuple", ("tuple",)), ("set", ("set", ("any",))),
    ("typing.Callable", ("callable",)), ("typing.Iterable", ("iterable",)), ("R1", ("record", "R1")), ("R2", ("record", "R2")), ("E1", ("enum", "E1")), ("E2", ("enum", "E2")),
    ("struct", ("struct",)), ("range", ("range",)),
]


def build_types(tier, rng):
    ts = list(BASE)
    small = [b for b in BASE if b[1][0] in ("any", "none", "prim", "never") or b[0] in ("list", "tuple", "R1", "typing.Callable")]
    d1 = []
    for t, a in BASE:
        d1.append(("list[%s]" % t, ("list", a)))
        d1.append(("set[%s]" % t, ("set", a)))
        d1.append(("tuple[%s, ...]" % t, ("tuple_of", a)))
        d1.append(("(%s,)" % t, ("tuple_n", (a,))))
    d1.append(("()", ("tuple_n", ())))
    for (t1, a1), (t2, a2) in itertools.product(small, small):
        d1.append(("dict[%s, %s]" % (t1, t2), ("dict", a1, a2)))
        d1.append(("(%s, %s)" % (t1, t2), ("tuple_n", (a1, a2))))
    for (t1, a1), (t2, a2) in itertools.combinations(BASE, 2):
        d1.append(("%s | %s" % (t1, t2), ("union", (a1, a2))))
    for (t1, a1), (t2, a2), (t3, a3) in itertools.combinations(small[:8], 3):
        d1.append(("%s | %s | %s" % (t1, t2, t3), ("union", (a1, a2, a3))))
        d1.append(("(%s, %s, %s)" % (t1, t2, t3), ("tuple_n", (a1, a2, a3))))
    ts += d1
    # depth 3 (and in quick a sample of depth 2)
    d2 = []
    pool = d1 if tier == "thorough" else rng.sample(d1, 300)
    for t, a in pool:
        k = rng.randrange(6)
        if k == 0:
            d2.append(("list[%s]" % t, ("list", a)))
        elif k == 1:
            d2.append(("dict[str, %s]" % t, ("dict", ("prim", "str"), a)))
        elif k == 2:
            d2.append(("tuple[%s, ...]" % t, ("tuple_of", a)))
        elif k == 3:
            d2.append(("None | %s" % t if "|" not in t else "None | list[%s]" % t, ("union", (("none",), a)) if "|" not in t else ("union", (("none",), ("list", a)))))
        elif k == 4:
            d2.append(("(int, %s)" % t, ("tuple_n", (("prim", "int"), a))))
        else:
            d2.append(("set[int] | %s" % t if "|" not in t else "list[%s]" % t, ("union", (("set", ("prim", "int")), a)) if "|" not in t else ("list", a)))
    ts += d2
    if tier == "quick":
        keep = list(BASE) + rng.sample(d1, min(len(d1), 380)) + d2[:120]
        ts = keep
    return ts


# ---------------------------------------------------------------- values: (expr text, descriptor)
def build_values():
    V = [
        ("None", ("none",)), ("True", ("bool",)), ("False", ("bool",)), ("0", ("int",)), ("1", ("int",)), ("-7", ("int",)), ("(1 << 80)", ("int",)), ("1.5", ("float",)), ("0.0", ("float",)),
        ("\"\"", ("str",)), ("\"abc\"", ("str",)),
        ("[]", ("list", ())), ("[1]", ("list", (("int",),))), ("[1, 2]", ("list", (("int",), ("int",)))), ("[1, \"a\"]", ("list", (("int",), ("str",)))), ("[None]", ("list", (("none",),))),
        ("[[1], [2]]", ("list", (("list", (("int",),)), ("list", (("int",),))))), ("[[1], [\"a\"]]", ("list", (("list", (("int",),)), ("list", (("str",),))))), ("[True]", ("list", (("bool",),))),
        ("[1.5]", ("list", (("float",),))), ("[(1, \"a\")]", ("list", (("tuple", (("int",), ("str",))),))),
        ("()", ("tuple", ())), ("(1,)", ("tuple", (("int",),))), ("(1, 2)", ("tuple", (("int",), ("int",)))), ("(1, \"a\")", ("tuple", (("int",), ("str",)))), ("(\"a\", 1)", ("tuple", (("str",), ("int",)))),
        ("(1, 2, 3)", ("tuple", (("int",), ("int",), ("int",)))), ("(1, \"a\", None)", ("tuple", (("int",), ("str",), ("none",)))), ("((1,), [2])", ("tuple", (("tuple", (("int",),)), ("list", (("int",),))))),
        ("(None,)", ("tuple", (("none",),))), ("(True, 1)", ("tuple", (("bool",), ("int",)))),
        ("{}", ("dict", ())), ("{\"a\": 1}", ("dict", ((("str",), ("int",)),))), ("{1: \"a\"}", ("dict", ((("int",), ("str",)),))), ("{\"a\": 1, \"b\": \"c\"}", ("dict", ((("str",), ("int",)), (("str",), ("str",))))),
        ("{\"a\": [1]}", ("dict", ((("str",), ("list", (("int",),))),))), ("{(1, 2): None}", ("dict", ((("tuple", (("int",), ("int",))), ("none",)),))), ("{\"a\": 1, 2: 3}", ("dict", ((("str",), ("int",)), (("int",), ("int",))))),
        ("set()", ("set", ())), ("set([1])", ("set", (("int",),))), ("set([1, \"a\"])", ("set", (("int",), ("str",)))), ("set([\"a\"])", ("set", (("str",),))), ("set([(1, 2)])", ("set", (("tuple", (("int",), ("int",))),))),
        ("DEF_F", ("callable",)), ("LAM", ("callable",)), ("len", ("callable",)), ("PART", ("callable",)), ("int", ("callable",)), ("str", ("callable",)), ("list", ("callable",)), ("[1].append", ("callable",)),
        ("R1", ("callable",)), ("E1", ("callable_enumtype",)),
        ("R1(x=1)", ("record", "R1")), ("R2(x=1)", ("record", "R2")), ("E1(\"a\")", ("enum", "E1")), ("E2(\"a\")", ("enum", "E2")),
        ("struct(a=1)", ("struct",)), ("struct()", ("struct",)), ("range(3)", ("range",)), ("range(0)", ("range",)),
        ("[R1(x=1)]", ("list", (("record", "R1"),))), ("[R1(x=1), R2(x=1)]", ("list", (("record", "R1"), ("record", "R2")))), ("(E1(\"a\"), E2(\"b\"))", ("tuple", (("enum", "E1"), ("enum", "E2")))),
        ("{\"k\": E1(\"a\")}", ("dict", ((("str",), ("enum", "E1")),))), ("[DEF_F, len]", ("list", (("callable",), ("callable",)))), ("[range(2)]", ("list", (("range",),))), ("[struct(a=1)]", ("list", (("struct",),))),
        ("[[], [1], [[2]]]", ("list", (("list", ()), ("list", (("int",),)), ("list", (("list", (("int",),)),))))), ("({}, [])", ("tuple", (("dict", ()), ("list", ())))),
    ]
    return V


PRELUDE = """R1 = record(x=int)
R2 = record(x=int)
E1 = enum("a", "b")
E2 = enum("a", "b")
def DEF_F(a, b=1):
    return a
LAM = lambda x: x
PART = partial(DEF_F, 1)
"""


def member(t, v):
    """True / False / None (the documentation does not settle it)."""
    k = t[0]
    vk = v[0]
    if k == "any":
        return True
    if k == "never":
        return False
    if k == "none":
        return vk == "none"
    if k == "prim":
        p = t[1]
        if p == "float" and vk == "int":
            return None  # docs leave int-as-float open
        if p == "int" and vk == "bool":
            return False  # bool is not int in Starlark
        return vk == p
    if k in ("list", "set"):
        if vk != k:
            return False
        rs = [member(t[1], x) for x in v[1]]
        return _all(rs)
    if k == "dict":
        if vk != "dict":
            return False
        rs = []
        for kk, vv in v[1]:
            rs.append(member(t[1], kk))
            rs.append(member(t[2], vv))
        return _all(rs)
    if k == "tuple":
        return vk == "tuple"
    if k == "tuple_of":
        if vk != "tuple":
            return False
        return _all([member(t[1], x) for x in v[1]])
    if k == "tuple_n":
        if vk != "tuple" or len(v[1]) != len(t[1]):
            return False
        return _all([member(a, x) for a, x in zip(t[1], v[1])])
    if k == "union":
        rs = [member(a, v) for a in t[1]]
        if any(r is True for r in rs):
            return True
        if any(r is None for r in rs):
            return None
        return False
    if k == "callable":
        if vk in ("callable", "callable_enumtype"):
            return True if vk == "callable" else None
        return False if vk in ("none", "bool", "int", "float", "str", "list", "tuple", "dict", "set", "range", "struct", "record", "enum") else None
    if k == "iterable":
        if vk in ("list", "tuple", "dict", "set", "range"):
            return True
        if vk in ("none", "bool", "int", "float", "callable", "record"):
            return False
        return None  # str, struct, enum types ...: not settled by the documentation
    if k == "record":
        return vk == "record" and v[1] == t[1]
    if k == "enum":
        return vk == "enum" and v[1] == t[1]
    if k == "struct":
        return vk == "struct"
    if k == "range":
        return vk == "range"
    return None


def _all(rs):
    if any(r is False for r in rs):
        return False
    if any(r is None for r in rs):
        return None
    return True


CHECKER = """
def _cell(r):
    if r[0] == "ok":
        if r[1] == True:
            return "1"
        if r[1] == False:
            return "0"
        return "?"
    m = r[1]
    if "does not match the type annotation" in m or "Type of parameter" in m or "Type of return" in m:
        return "0"
    return "E"
def _isinst(t, v):
    return _cell(attempt(lambda: isinstance(v, t)))
def _host(t, v):
    r = host_matches(t, v)
    return "1" if r == True else ("0" if r == False else "E")
def _call(f, v):
    r = attempt(lambda: f(v))
    if r[0] == "ok":
        return "1"
    return _cell(r)
def _call_kw(f, v):
    r = attempt(lambda: f(k=v))
    if r[0] == "ok":
        return "1"
    return _cell(r)
def _call_star(f, v):
    # the value is one of several extra positional arguments (the others are None, which is in T only if the row for None says so)
    r = attempt(lambda: f(0, v))
    if r[0] == "ok":
        return "1"
    return _cell(r)
def _default(mk, v):
    # the annotated parameter's default value is checked when the def statement is executed
    r = attempt(lambda: mk(v))
    if r[0] == "ok":
        return "1"
    return _cell(r)
def rows(tag):
    for i in range(len(TYPES)):
        t = TYPES[i]
        emit("row", tag, i, "".join([_isinst(t, v) for v in VALS]), "".join([_host(t, v) for v in VALS]), "".join([_call(PARAM[i], v) for v in VALS]),
             "".join([_call(RET[i], v) for v in VALS]), "".join([_call(LOCAL[i], v) for v in VALS]),
             "".join([_call_star(STAR[i], v) for v in VALS]), "".join([_call_kw(KWS[i], v) for v in VALS]), "".join([_call_kw(KWONLY[i], v) for v in VALS]),
             "".join([_default(DEFAULT[i], v) for v in VALS]))
"""


def make_sources(types, values):
    lib = PRELUDE
    lib += "TYPES = [\n" + "".join("    %s,\n" % t for t, _ in types) + "]\n"
    lib += "VALS = [\n" + "".join("    %s,\n" % v for v, _ in values) + "]\n"
    for i, (t, _) in enumerate(types):
        lib += "def _p%d(x: %s):\n    return 0\n" % (i, t)
        lib += "def _r%d(x) -> %s:\n    return x\n" % (i, t)
        lib += "def _l%d(x):\n    y: %s = x\n    return 0\n" % (i, t)
        lib += "def _s%d(first, *rest: %s):\n    return 0\n" % (i, t)
        lib += "def _k%d(**kw: %s):\n    return 0\n" % (i, t)
        lib += "def _ko%d(*, k: %s):\n    return 0\n" % (i, t)
        lib += "def _d%d(v):\n    def inner(x: %s = v):\n        return 0\n    return inner\n" % (i, t)
    lib += "PARAM = [%s]\n" % ", ".join("_p%d" % i for i in range(len(types)))
    lib += "RET = [%s]\n" % ", ".join("_r%d" % i for i in range(len(types)))
    lib += "LOCAL = [%s]\n" % ", ".join("_l%d" % i for i in range(len(types)))
    lib += "STAR = [%s]\n" % ", ".join("_s%d" % i for i in range(len(types)))
    lib += "KWS = [%s]\n" % ", ".join("_k%d" % i for i in range(len(types)))
    lib += "KWONLY = [%s]\n" % ", ".join("_ko%d" % i for i in range(len(types)))
    lib += "DEFAULT = [%s]\n" % ", ".join("_d%d" % i for i in range(len(types)))
    plain = lib + CHECKER + "rows(\"plain\")\n"
    importer = 'load("lib.star", "TYPES", "VALS", "PARAM", "RET", "LOCAL", "STAR", "KWS", "KWONLY", "DEFAULT")\n' + CHECKER + "rows(\"frozen\")\n"
    return plain, lib, importer


def run(tier):
    rep = Report("C16", tier)
    s = seed()
    rng = random.Random("%d/c16" % s)
    types = build_types(tier, rng)
    values = build_values()
    log("[C16] %d type expressions x %d values x 9 paths x {unfrozen, frozen}" % (len(types), len(values)))
    # split types into chunks so that modules stay small
    per = 60
    cases, chunks = [], {}
    for ci in range(0, len(types), per):
        chunk = types[ci:ci + per]
        plain, lib, importer = make_sources(chunk, values)
        cid = "k%d" % (ci // per)
        cases.append({"id": cid + "/plain", "cfg": {"dialect": "internal"}, "units": [{"file": "t.star", "src": plain}]})
        cases.append({"id": cid + "/frozen", "cfg": {"dialect": "internal"}, "units": [{"file": "lib.star", "src": lib, "freeze": True}, {"file": "use.star", "src": importer}]})
        chunks[cid] = chunk
    # the spelling docs/types.md uses for fixed-arity tuples
    cases.append({"id": "doc2", "cfg": {"dialect": "internal"}, "units": [{"file": "d.star", "src": "emit(attempt(lambda: isinstance((1, \"a\"), tuple[int, str])))\n"}]})
    cases.append({"id": "doc3", "cfg": {"dialect": "internal"}, "units": [{"file": "d.star", "src": "def f(x: tuple[int, bool, str]):\n    return x\nemit(attempt(lambda: f((1, True, \"a\"))))\n"}]})
    flavors = ["dbg"] if tier == "quick" else ["dbg", "rel"]
    st = {"cells": 0, "oracle_decided": 0, "oracle_open": 0, "members": 0, "non_members": 0}
    PATHS = ["isinstance", "host TypeCompiled::matches", "parameter annotation", "return annotation", "annotated local assignment",
             "*args annotation (one extra argument)", "**kwargs annotation (one named argument)", "keyword-only parameter annotation", "annotated parameter default"]
    for flavor in flavors:
        svh = os.path.join(common.build(flavor), "svh")
        batch = common.run_cases(svh, "run", cases, "c16_" + flavor, shards=NCPU, timeout=3000)
        for cr in batch.crashes:
            rep.violation("c16:" + common.crash_signature(cr), "[%s] crash in %s" % (flavor, cr["id"]), {"flavor": flavor, "case": cr["case"]["id"], "crash": cr.get("confirm")})
        for inc in batch.inconclusive:
            rep.inconc(inc["why"], inc.get("id"))
        for did, want in (("doc2", ["e", ["t", "sok", True]]), ("doc3", ["e", ["t", "sok", ["t", "i1", True, "sa"]]])):
            evs = batch.events.get(did) or []
            em = [e for e in evs if e[0] == "e"]
            if not em or em[0] != want:
                rep.violation("c16:documented-tuple-spelling", "[%s] the documented spelling of fixed-arity tuple types does not work: %s" % (flavor, json.dumps(evs)[:300]), {"flavor": flavor, "case": did})
        for cid, chunk in chunks.items():
            table = {}
            for variant in ("plain", "frozen"):
                evs = batch.events.get(cid + "/" + variant)
                if evs is None:
                    continue
                bad = [e for e in evs if e[0] == "r" and e[3] != "ok"]
                if bad:
                    rep.violation("c16:module-failed:" + bad[0][4].get("msg", "")[:60], "[%s] %s/%s: type module failed to evaluate: %s" % (flavor, cid, variant, bad[0][4].get("msg")), {"flavor": flavor, "case": cid})
                    continue
                for e in evs:
                    if e[0] == "e" and e[1] == "srow":
                        table[(variant, int(e[3][1:]))] = [x[1:] for x in e[4:13]]
                    if e[0] == "panic":
                        rep.violation("c16:panic:" + e[1][:80], "[%s] %s panic: %s" % (flavor, cid, e[1]), {"flavor": flavor, "case": cid})
            for i, (texpr, tast) in enumerate(chunk):
                for j, (vexpr, vdesc) in enumerate(values):
                    answers = {}
                    for variant in ("plain", "frozen"):
                        row = table.get((variant, i))
                        if row is None:
                            continue
                        for p, name in enumerate(PATHS):
                            answers[(variant, name)] = row[p][j]
                    if not answers:
                        continue
                    st["cells"] += len(answers)
                    wit = {"flavor": flavor, "type": texpr, "value": vexpr}
                    vals = set(answers.values())
                    if "E" in vals or "?" in vals:
                        w = [k for k, a in answers.items() if a in ("E", "?")][0]
                        rep.violation("c16:check-errors:%s:%s" % (w[1].split()[0], _shape(texpr)), "[%s] checking %s against %s through %s (%s) raised an unexpected error / non-bool" % (flavor, vexpr, texpr, w[1], w[0]), wit)
                        continue
                    if len(vals) > 1:
                        yes = sorted("%s/%s" % k for k, a in answers.items() if a == "1")
                        no = sorted("%s/%s" % k for k, a in answers.items() if a == "0")
                        rep.violation("c16:paths-disagree:%s" % _shape(texpr), "[%s] is %s a %s ?  yes: %s   no: %s" % (flavor, vexpr, texpr, yes, no), wit)
                        continue
                    got = vals.pop() == "1"
                    want = member(tast, vdesc)
                    if want is None:
                        st["oracle_open"] += 1
                        continue
                    st["oracle_decided"] += 1
                    if want:
                        st["members"] += 1
                    else:
                        st["non_members"] += 1
                    if got != want:
                        rep.violation("c16:oracle:%s:%s" % (_shape(texpr), vdesc[0]), "[%s] all paths say %s %s a %s, the documented meaning says it %s" % (
                            flavor, vexpr, "is" if got else "is not", texpr, "is" if want else "is not"), wit)
    rep.coverage = {
        "evaluations": st["cells"],
        "distinct_nontrivial": len(types) * len(values),
        "rule": "evaluation = one (type expression, value, check path, frozen?) answer; distinct_nontrivial = (type, value) pairs, each answered on 18 paths and compared with each other and - where the documentation decides - with the independent oracle",
        "samples": [{"type": t, "ast": a} for t, a in types[::max(1, len(types) // 6)]][:6] + [{"value": v} for v, _ in values[::12]],
        "type_expressions": len(types),
        "values": len(values),
        "paths": PATHS,
        "pairs_decided_by_oracle": st["oracle_decided"],
        "pairs_left_to_agreement_only": st["oracle_open"],
        "oracle_members": st["members"],
        "oracle_non_members": st["non_members"],
        "flavors": flavors,
    }
    rep.assumptions = ["fixed-arity tuple types are written (T1, T2) on this tree; the documented tuple[T1, T2, ...] spelling is a recorded known finding",
                       "float vs int values, Callable vs enum types, Iterable vs str/struct are left to agreement checks (documentation does not decide)"]
    rep.finish(sanity_ok=st["oracle_decided"] > 5000 and st["members"] > 500, sanity_msg="too few decided pairs")


def _shape(t):
    import re
    return re.sub(r"\b(R1|R2|E1|E2)\b", "U", t)[:50]


def replay(rep):
    w = rep["witness"]
    print(json.dumps(w))
    return 1
