// placeholder project root for cargo-fuzz (see fuzz/)
