//! C05 under coverage guidance: the same oracle as `svh parse` (totality, span well-formedness, error
//! well-formedness, dialect monotonicity), driven by libFuzzer. Input = 4 dialect bytes + UTF-8 source text.
//! A violation panics (libFuzzer keeps the input as an artifact); the driver re-judges artifacts with svh.
#![no_main]
#![allow(dead_code)]

use libfuzzer_sys::fuzz_target;
use serde_json::Value as J;
use serde_json::json;

#[path = "../../../svh/src/canon.rs"]
mod canon;
#[path = "../../../svh/src/natives.rs"]
mod natives;
#[path = "../../../svh/src/parse.rs"]
mod parse;
#[path = "../../../svh/src/run.rs"]
mod run;

pub fn take_panic_msg() -> String {
    String::new()
}

const BOOLS: [&str; 8] = ["def", "lambda", "load", "kwonly", "posonly", "reexport", "toplevel", "fstrings"];
const TYPES: [&str; 3] = ["disable", "parse", "enable"];

fn dialect(bits: u16) -> J {
    let mut o = serde_json::Map::new();
    for (i, b) in BOOLS.iter().enumerate() {
        o.insert((*b).to_owned(), J::Bool(bits & (1 << i) != 0));
    }
    o.insert("types".to_owned(), J::String(TYPES[((bits >> 8) % 3) as usize].to_owned()));
    J::Object(o)
}

fn leq(a: u16, b: u16) -> bool {
    (a & 0xff) & !(b & 0xff) == 0 && ((a >> 8) % 3) <= ((b >> 8) % 3)
}

/// Nesting (brackets / indentation levels) beyond the bound of the property's quantifier.
fn too_deep(src: &str) -> bool {
    let mut depth = 0i32;
    let mut max = 0i32;
    for c in src.chars() {
        match c {
            '(' | '[' | '{' => {
                depth += 1;
                max = max.max(depth);
            }
            ')' | ']' | '}' => depth -= 1,
            _ => {}
        }
    }
    let indent = src.lines().map(|l| l.len() - l.trim_start().len()).max().unwrap_or(0);
    let unary = src.matches("not").count() + src.matches('-').count() + src.matches('~').count() + src.matches('+').count()
        + src.matches("lambda").count() + src.matches("if").count() + src.matches('.').count();
    max > 150 || indent > 150 || unary > 150
}

fuzz_target!(|data: &[u8]| {
    if data.len() < 4 {
        return;
    }
    let Ok(src) = std::str::from_utf8(&data[4..]) else { return };
    if too_deep(src) {
        return;
    }
    let d1 = u16::from_le_bytes([data[0], data[1] % 3]);
    let extra = u16::from_le_bytes([data[2], data[3] % 3]);
    // d2 >= d1 by construction
    let d2 = ((d1 & 0xff) | (extra & 0xff)) | ((((d1 >> 8) % 3).max((extra >> 8) % 3)) << 8);
    let ds: [u16; 4] = [0, d1, d2, 0xff | (2 << 8)];
    let case = json!({"id": "f", "src": src, "dialects": ds.iter().map(|d| dialect(*d)).collect::<Vec<_>>(), "sexp": false});
    let out = parse::run_case(&case);
    let mut res: [Option<(String, String)>; 4] = [None, None, None, None];
    for e in &out {
        let tag = e[0].as_str().unwrap_or("");
        let di = e[1].as_u64().unwrap_or(0) as usize;
        match tag {
            "ok" => {
                if e[3].as_array().map(|a| !a.is_empty()).unwrap_or(false) {
                    panic!("C05 span violation under dialect {di}: {}", e[3]);
                }
                res[di] = Some((e[2].to_string(), e[5].to_string()));
            }
            "err" => {
                if e[3].as_array().map(|a| !a.is_empty()).unwrap_or(false) {
                    panic!("C05 error violation under dialect {di}: {} ({})", e[3], e[2]);
                }
            }
            "panic" => panic!("C05 parser panic under dialect {di}"),
            _ => {}
        }
    }
    for a in 0..4 {
        for b in 0..4 {
            if a != b && leq(ds[a], ds[b]) {
                if let Some(ra) = &res[a] {
                    match &res[b] {
                        None => panic!("C05 monotonicity: accepted under dialect {a} but rejected under the larger dialect {b}"),
                        Some(rb) if rb != ra => panic!("C05 monotonicity: tree/spans differ between dialect {a} and the larger dialect {b}"),
                        _ => {}
                    }
                }
            }
        }
    }
});
