//! Canonical, representation-blind encoding of Starlark values as JSON.
//!
//!  None -> null, bool -> true/false, int -> "i<decimal>", str -> "s<utf8>",
//!  float -> "f<hex bits>", list -> ["l", ...], tuple -> ["t", ...],
//!  dict -> ["d", [k, v], ...], set -> ["S", ...], struct -> ["st", [name, v], ...],
//!  range/function/other -> ["o", type, repr].
//!  Cycles (always) and aliasing among mutable containers (sharing mode) -> ["ref", n]
//!  where n is the pre-order number of the container first visited.

use std::collections::HashMap;

use serde_json::Value as J;
use serde_json::json;
use starlark::values::Heap;
use starlark::values::Value;
use starlark::values::ValueLike;
use starlark::values::ValueIdentity;
use starlark::values::dict::DictRef;
use starlark::values::float::StarlarkFloat;
use starlark::values::list::ListRef;
use starlark::values::structs::StructRef;
use starlark::values::tuple::TupleRef;

const MAX_NODES: usize = 50_000;
const MAX_DEPTH: usize = 150;

pub struct Enc<'v> {
    sharing: bool,
    /// identity -> (number, on_stack)
    seen: HashMap<ValueIdentity<'v>, (usize, bool)>,
    next: usize,
    nodes: usize,
}

impl<'v> Enc<'v> {
    pub fn new(sharing: bool) -> Self {
        Enc {
            sharing,
            seen: HashMap::new(),
            next: 0,
            nodes: 0,
        }
    }

    fn enter(&mut self, v: Value<'v>) -> Result<usize, J> {
        let id = v.identity();
        if let Some((n, on_stack)) = self.seen.get(&id) {
            if *on_stack || self.sharing {
                return Err(json!(["ref", n]));
            }
            // not sharing-sensitive and not a cycle: encode again under the same number
            let n = *n;
            self.seen.insert(id, (n, true));
            return Ok(n);
        }
        let n = self.next;
        self.next += 1;
        self.seen.insert(id, (n, true));
        Ok(n)
    }

    fn leave(&mut self, v: Value<'v>) {
        if let Some(e) = self.seen.get_mut(&v.identity()) {
            e.1 = false;
        }
    }

    pub fn enc(&mut self, v: Value<'v>, depth: usize) -> J {
        self.nodes += 1;
        if self.nodes > MAX_NODES {
            return json!(["trunc"]);
        }
        if depth > MAX_DEPTH {
            return json!(["deep"]);
        }
        if v.is_none() {
            return J::Null;
        }
        if let Some(b) = v.unpack_bool() {
            return J::Bool(b);
        }
        if let Some(s) = v.unpack_str() {
            return J::String(format!("s{}", s));
        }
        let ty = v.get_type();
        match ty {
            "int" => return J::String(format!("i{}", v.to_str())),
            "float" => {
                if let Some(f) = v.downcast_ref::<StarlarkFloat>() {
                    return J::String(format!("f{:016x}", f.0.to_bits()));
                }
            }
            _ => {}
        }
        if let Some(l) = ListRef::from_value(v) {
            if ty == "list" {
                let _n = match self.enter(v) {
                    Ok(n) => n,
                    Err(r) => return r,
                };
                let mut out = Vec::with_capacity(l.len() + 1);
                out.push(J::String("l".to_owned()));
                for x in l.content().to_vec() {
                    out.push(self.enc(x, depth + 1));
                }
                self.leave(v);
                return J::Array(out);
            }
        }
        if let Some(t) = TupleRef::from_value(v) {
            let mut out = Vec::with_capacity(t.len() + 1);
            out.push(J::String("t".to_owned()));
            for x in t.content() {
                out.push(self.enc(*x, depth + 1));
            }
            return J::Array(out);
        }
        if ty == "dict" {
            if let Some(d) = DictRef::from_value(v) {
                let _n = match self.enter(v) {
                    Ok(n) => n,
                    Err(r) => return r,
                };
                let items: Vec<(Value<'v>, Value<'v>)> = d.iter().collect();
                drop(d);
                let mut out = Vec::with_capacity(items.len() + 1);
                out.push(J::String("d".to_owned()));
                for (k, x) in items {
                    let k = self.enc(k, depth + 1);
                    let x = self.enc(x, depth + 1);
                    out.push(J::Array(vec![k, x]));
                }
                self.leave(v);
                return J::Array(out);
            }
        }
        if ty == "set" {
            // Set elements are hashable, hence immutable: the repr is a faithful structural encoding.
            let _n = match self.enter(v) {
                Ok(n) => n,
                Err(r) => return r,
            };
            self.leave(v);
            return json!(["S", v.to_repr()]);
        }
        if let Some(s) = StructRef::from_value(v) {
            let mut out = vec![J::String("st".to_owned())];
            let items: Vec<_> = s.iter().map(|(k, x)| (k.as_str().to_owned(), x)).collect();
            for (k, x) in items {
                let x = self.enc(x, depth + 1);
                out.push(J::Array(vec![J::String(k), x]));
            }
            return J::Array(out);
        }
        json!(["o", ty, v.to_repr()])
    }
}

pub fn encode<'v>(v: Value<'v>, sharing: bool) -> J {
    Enc::new(sharing).enc(v, 0)
}

/// Decode the JSON form of simple values (no refs) back into a heap value.
pub fn decode<'v>(j: &J, heap: Heap<'v>) -> Value<'v> {
    match j {
        J::Null => Value::new_none(),
        J::Bool(b) => Value::new_bool(*b),
        J::String(s) => {
            let (tag, rest) = s.split_at(1);
            match tag {
                "i" => {
                    if let Ok(i) = rest.parse::<i64>() {
                        heap.alloc(i)
                    } else {
                        let b: num_bigint::BigInt = rest.parse().expect("bad int");
                        heap.alloc(b)
                    }
                }
                "f" => heap.alloc(f64::from_bits(u64::from_str_radix(rest, 16).expect("bad float"))),
                _ => heap.alloc(rest),
            }
        }
        J::Array(a) => {
            let tag = a[0].as_str().unwrap_or("");
            match tag {
                "l" => {
                    let xs: Vec<Value<'v>> = a[1..].iter().map(|x| decode(x, heap)).collect();
                    heap.alloc(xs)
                }
                "t" => {
                    let xs: Vec<Value<'v>> = a[1..].iter().map(|x| decode(x, heap)).collect();
                    heap.alloc(starlark::values::tuple::AllocTuple(xs))
                }
                "d" => {
                    let mut m = starlark::collections::SmallMap::new();
                    for kv in &a[1..] {
                        let k = decode(&kv[0], heap);
                        let v = decode(&kv[1], heap);
                        m.insert_hashed(k.get_hashed().expect("unhashable key"), v);
                    }
                    heap.alloc(starlark::values::dict::Dict::new(m))
                }
                _ => panic!("cannot decode {:?}", j),
            }
        }
        _ => panic!("cannot decode {:?}", j),
    }
}
