//! C20: frozen modules shared between threads; concurrent use must equal sequential use.

use std::collections::HashMap;
use std::sync::Arc;
use std::sync::Barrier;
use std::sync::Mutex;
use std::sync::mpsc;

use serde_json::Value as J;
use serde_json::json;
use starlark::environment::FrozenModule;
use starlark::environment::Globals;
use starlark::environment::GlobalsBuilder;
use starlark::environment::Module;
use starlark::eval::Evaluator;
use starlark::eval::ReturnFileLoader;
use starlark::syntax::AstModule;
use starlark::syntax::Dialect;
use starlark::values::FrozenHeapName;

use crate::canon;
use crate::natives;
use crate::natives::log;
use crate::run;

fn make_globals() -> Globals {
    if cfg!(miri) {
        GlobalsBuilder::new().with(natives::harness_natives).build()
    } else {
        run::globals()
    }
}

struct Src {
    file: String,
    src: String,
}

fn srcs(j: Option<&J>) -> Vec<Src> {
    j.and_then(|x| x.as_array())
        .map(|a| {
            a.iter()
                .map(|u| Src {
                    file: u["file"].as_str().unwrap_or("x.star").to_owned(),
                    src: u["src"].as_str().unwrap_or("").to_owned(),
                })
                .collect()
        })
        .unwrap_or_default()
}

/// Evaluate one source; returns (transcript, frozen module if asked and possible).
fn eval_one(s: &Src, shared: &[(String, FrozenModule)], globals: &Globals, freeze: bool) -> (Vec<J>, Option<FrozenModule>) {
    natives::take_log();
    let modules: HashMap<&str, &FrozenModule> = shared.iter().map(|(k, v)| (k.as_str(), v)).collect();
    let loader = ReturnFileLoader { modules: &modules };
    let fm = match AstModule::parse(&s.file, s.src.clone(), &Dialect::AllOptionsInternal) {
        Err(e) => {
            log(json!(["parse_err", natives::err_head(&e)]));
            None
        }
        Ok(ast) => Module::with_temp_heap(|module| {
            {
                let mut eval = Evaluator::new(&module);
                eval.set_loader(&loader);
                match eval.eval_module(ast, globals) {
                    Ok(v) => log(json!(["r", "ok", canon::encode(v, false)])),
                    Err(e) => log(json!(["r", "err", run::kind_name(&e), natives::err_head(&e)])),
                }
            }
            if freeze {
                module.freeze_named(FrozenHeapName::user(&s.file)).ok()
            } else {
                None
            }
        }),
    };
    (natives::take_log(), fm)
}

fn observe_fm(fm: &FrozenModule) -> J {
    let mut names: Vec<String> = fm.names().map(|n| n.as_str().to_owned()).collect();
    names.sort();
    let mut out = Vec::new();
    for n in names {
        if let Ok(v) = fm.get_owned(&n) {
            let val = v.as_ref().value();
            let h = val.get_hashed().ok().map(|h| h.hash().get());
            out.push(json!([n, canon::encode(val, false), h, val.to_repr()]));
        }
    }
    J::Array(out)
}

fn jitter(state: &mut u64) {
    *state ^= *state << 13;
    *state ^= *state >> 7;
    *state ^= *state << 17;
    match *state % 4 {
        0 => {}
        1 => std::thread::yield_now(),
        _ => {
            let n = (*state >> 8) % 2000;
            for _ in 0..n {
                std::hint::spin_loop();
            }
        }
    }
}

struct SendFm(FrozenModule, usize);
unsafe impl Send for SendFm {}

/// Many tiny frozen heaps built back to back on producer threads (so that consecutive heaps share allocator
/// chunks) and dropped on consumer threads while the producer keeps building; a sample is kept alive and
/// re-read at the end. Observes: panics, content of the kept values.
fn storm(case: &J) -> Vec<J> {
    use starlark::values::FrozenHeap;
    use starlark::values::OwnedFrozen;
    use starlark::values::Value;
    let pairs = case.get("pairs").and_then(|x| x.as_u64()).unwrap_or(3) as usize;
    let n = case.get("n").and_then(|x| x.as_u64()).unwrap_or(20000) as usize;
    struct SendOf(OwnedFrozen<Value<'static>>);
    unsafe impl Send for SendOf {}
    let mut handles = Vec::new();
    for p in 0..pairs {
        let (tx, rx) = mpsc::sync_channel::<SendOf>(64);
        let consumer = std::thread::spawn(move || {
            std::panic::catch_unwind(std::panic::AssertUnwindSafe(move || {
                let mut dropped = 0u64;
                for x in rx {
                    drop(x);
                    dropped += 1;
                }
                dropped
            }))
            .map_err(|_| crate::take_panic_msg())
        });
        let producer = std::thread::spawn(move || {
            std::panic::catch_unwind(std::panic::AssertUnwindSafe(move || {
            let mut kept: Vec<(String, OwnedFrozen<Value<'static>>)> = Vec::new();
            for i in 0..n {
                let text = format!("p{p}-item-{i}-{}", "x".repeat(i % 23));
                let t2 = text.clone();
                let of = OwnedFrozen::<Value<'static>>::build(FrozenHeapName::user("storm"), move |h: &FrozenHeap| {
                    let s = h.alloc_str(&t2);
                    h.alloc((s, i as i32)).to_value()
                });
                if i % 97 == 0 {
                    kept.push((text, of));
                } else if tx.send(SendOf(of)).is_err() {
                    break;
                }
            }
            drop(tx);
            let mut bad = Vec::new();
            for (text, of) in &kept {
                let got = canon::encode(of.as_ref().value(), false);
                if got[1] != json!(format!("s{text}")) {
                    bad.push(json!([text, got]));
                }
            }
            (kept.len(), bad)
            }))
            .map_err(|_| crate::take_panic_msg())
        });
        handles.push((producer, consumer));
    }
    let mut out = Vec::new();
    for (p, c) in handles {
        match p.join() {
            Ok(Ok((kept, bad))) => out.push(json!(["storm_producer", kept, bad])),
            Ok(Err(m)) => out.push(json!(["panic", format!("storm producer: {m}")])),
            Err(_) => out.push(json!(["panic", "storm producer thread died"])),
        }
        match c.join() {
            Ok(Ok(d)) => out.push(json!(["storm_consumer", d])),
            Ok(Err(m)) => out.push(json!(["panic", format!("storm consumer: {m}")])),
            Err(_) => out.push(json!(["panic", "storm consumer thread died"])),
        }
    }
    out
}

pub fn run_case(case: &J) -> Vec<J> {
    if case.get("storm").and_then(|x| x.as_bool()).unwrap_or(false) {
        return storm(case);
    }
    let shared_src = srcs(case.get("shared"));
    let workers = Arc::new(srcs(case.get("workers")));
    let nthreads = case.get("threads").and_then(|x| x.as_u64()).unwrap_or(4) as usize;
    let iters = case.get("iters").and_then(|x| x.as_u64()).unwrap_or(4) as usize;
    let first_use = case.get("first_use").and_then(|x| x.as_bool()).unwrap_or(false);
    let send = case.get("send").and_then(|x| x.as_bool()).unwrap_or(true);
    let seed = case.get("jitter_seed").and_then(|x| x.as_u64()).unwrap_or(1);
    let shared_src = Arc::new(shared_src);
    let out: Arc<Mutex<Vec<J>>> = Arc::new(Mutex::new(Vec::new()));

    let build_shared = |globals: &Globals, shared_src: &[Src]| -> (Vec<(String, FrozenModule)>, Vec<J>) {
        let mut shared: Vec<(String, FrozenModule)> = Vec::new();
        let mut logs = Vec::new();
        for s in shared_src {
            let (t, fm) = eval_one(s, &shared, globals, true);
            logs.push(json!([s.file, t]));
            if let Some(fm) = fm {
                shared.push((s.file.clone(), fm));
            }
        }
        (shared, logs)
    };

    // Phase 1 (unless first-use variant): globals and shared modules are built before the threads start.
    let pre = if first_use {
        None
    } else {
        let g = make_globals();
        let (shared, logs) = build_shared(&g, &shared_src);
        out.lock().unwrap().push(json!(["shared_build", logs]));
        Some(Arc::new((g, shared)))
    };

    let barrier = Arc::new(Barrier::new(nthreads));
    let mut senders = Vec::new();
    let mut receivers = Vec::new();
    for _ in 0..nthreads {
        let (tx, rx) = mpsc::channel::<SendFm>();
        senders.push(tx);
        receivers.push(Some(rx));
    }
    let mut handles = Vec::new();
    for t in 0..nthreads {
        let workers = workers.clone();
        let shared_src = shared_src.clone();
        let out = out.clone();
        let barrier = barrier.clone();
        let pre = pre.clone();
        let tx = senders[(t + 1) % nthreads].clone();
        let rx = receivers[t].take().unwrap();
        handles.push(
            std::thread::Builder::new()
                .stack_size(8 << 20)
                .spawn(move || {
                    let mut js = seed.wrapping_mul(0x9E3779B97F4A7C15).wrapping_add(t as u64 + 1) | 1;
                    barrier.wait();
                    let own;
                    let (globals, shared): (&Globals, &Vec<(String, FrozenModule)>) = match &pre {
                        Some(p) => (&p.0, &p.1),
                        None => {
                            // first use of everything lazily initialised, under contention
                            let g = make_globals();
                            let (sh, logs) = build_shared(&g, &shared_src);
                            out.lock().unwrap().push(json!(["thread_shared_build", t, logs]));
                            own = (g, sh);
                            (&own.0, &own.1)
                        }
                    };
                    let mut local = Vec::new();
                    for it in 0..iters {
                        jitter(&mut js);
                        let w = (t + it) % workers.len().max(1);
                        let (tr, fm) = eval_one(&workers[w], shared, globals, send);
                        local.push(json!(["thr", t, it, w, tr]));
                        if let Some(fm) = fm {
                            let obs = observe_fm(&fm);
                            local.push(json!(["own_fm", t, it, w, obs]));
                            let _ = tx.send(SendFm(fm, w));
                        }
                        jitter(&mut js);
                        // use and drop whatever neighbours sent us (heap created on another thread)
                        while let Ok(SendFm(fm, sw)) = rx.try_recv() {
                            let obs = observe_fm(&fm);
                            local.push(json!(["recv_fm", t, sw, obs]));
                            drop(fm);
                        }
                    }
                    drop(tx);
                    // drain
                    while let Ok(SendFm(fm, sw)) = rx.recv_timeout(std::time::Duration::from_millis(20)) {
                        let obs = observe_fm(&fm);
                        local.push(json!(["recv_fm", t, sw, obs]));
                        drop(fm);
                    }
                    out.lock().unwrap().extend(local);
                })
                .expect("spawn"),
        );
    }
    drop(senders);
    let mut panicked = false;
    for h in handles {
        if h.join().is_err() {
            panicked = true;
        }
    }
    if panicked {
        out.lock().unwrap().push(json!(["panic", "worker thread panicked"]));
    }
    // Sequential reference: every worker alone, on this thread.
    {
        let own;
        let (globals, shared): (&Globals, &Vec<(String, FrozenModule)>) = match &pre {
            Some(p) => (&p.0, &p.1),
            None => {
                let g = make_globals();
                let (sh, logs) = build_shared(&g, &shared_src);
                out.lock().unwrap().push(json!(["shared_build", logs]));
                own = (g, sh);
                (&own.0, &own.1)
            }
        };
        for (w, s) in workers.iter().enumerate() {
            let (tr, fm) = eval_one(s, shared, globals, send);
            let obs = fm.as_ref().map(observe_fm);
            out.lock().unwrap().push(json!(["seq", w, tr, obs]));
        }
    }
    drop(pre);
    let v = std::mem::take(&mut *out.lock().unwrap());
    v
}
