//! Native functions the harness adds to the globals, and the per-thread transcript.

use std::cell::Cell;
use std::cell::RefCell;
use std::sync::Arc;
use std::sync::atomic::AtomicBool;
use std::sync::atomic::Ordering;

use serde_json::Value as J;
use serde_json::json;
use starlark::environment::GlobalsBuilder;
use starlark::eval::Evaluator;
use starlark::starlark_module;
use starlark::values::Heap;
use starlark::values::Value;
use starlark::values::none::NoneType;
use starlark::values::tuple::UnpackTuple;

use crate::canon;

thread_local! {
    static NESTED_GLOBALS: RefCell<Option<starlark::environment::Globals>> = const { RefCell::new(None) };
}


pub static GLOBAL_NAMES: std::sync::OnceLock<Vec<String>> = std::sync::OnceLock::new();

thread_local! {
    pub static LOG: RefCell<Vec<J>> = const { RefCell::new(Vec::new()) };
    pub static SHARING: Cell<bool> = const { Cell::new(false) };
    pub static CANCEL: RefCell<Option<Arc<AtomicBool>>> = const { RefCell::new(None) };
}

pub fn log(j: J) {
    LOG.with(|l| l.borrow_mut().push(j));
}

pub fn take_log() -> Vec<J> {
    LOG.with(|l| std::mem::take(&mut *l.borrow_mut()))
}

pub fn first_line(s: &str) -> String {
    s.lines().next().unwrap_or("").to_owned()
}

pub fn err_head(e: &starlark::Error) -> String {
    first_line(&format!("{}", e.without_diagnostic()))
}

fn sharing() -> bool {
    SHARING.with(|s| s.get())
}

#[starlark_module]
pub fn harness_natives(builder: &mut GlobalsBuilder) {
    /// Append the canonical encoding of the arguments to the transcript.
    fn emit<'v>(#[starlark(args)] args: UnpackTuple<Value<'v>>) -> anyhow::Result<NoneType> {
        let mut out = vec![J::String("e".to_owned())];
        let mut enc = canon::Enc::new(sharing());
        for a in args.items {
            out.push(enc.enc(a, 0));
        }
        log(J::Array(out));
        Ok(NoneType)
    }

    /// Names of all globals of the environment the harness evaluates in (live inventory).
    fn harness_global_names() -> anyhow::Result<Vec<String>> {
        Ok(GLOBAL_NAMES.get().cloned().unwrap_or_default())
    }

    /// Identity function the optimiser knows nothing about.
    fn opaque<'v>(#[starlark(require = pos)] x: Value<'v>) -> anyhow::Result<Value<'v>> {
        Ok(x)
    }

    /// Call a zero-argument callable; ("ok", v) or ("err", message head).
    fn attempt<'v>(
        #[starlark(require = pos)] f: Value<'v>,
        eval: &mut Evaluator<'v, '_, '_>,
    ) -> anyhow::Result<Value<'v>> {
        let depth = eval.call_stack_count();
        let r = eval.eval_function(f, &[], &[]);
        let after = eval.call_stack_count();
        if after != depth {
            log(json!(["stackleak", depth, after]));
        }
        let heap = eval.heap();
        Ok(match r {
            Ok(v) => heap.alloc(("ok", v)),
            Err(e) => {
                let kind = crate::run::kind_name(&e);
                if kind == "Internal" {
                    log(json!(["internal", format!("{:#}", e)]));
                }
                heap.alloc(("err", err_head(&e)))
            }
        })
    }

    /// Evaluate module-level code on the evaluator this native was called with (an embedder re-entering
    /// `eval_module` while Starlark frames are running): every top-level statement of `src` is a GC safepoint.
    fn eval_here<'v>(
        #[starlark(require = pos)] src: &str,
        eval: &mut Evaluator<'v, '_, '_>,
    ) -> anyhow::Result<Value<'v>> {
        let ast = starlark::syntax::AstModule::parse("nested.star", src.to_owned(), &starlark::syntax::Dialect::AllOptionsInternal)
            .map_err(|e| anyhow::anyhow!("{e:#}"))?;
        let g = NESTED_GLOBALS.with(|c| c.borrow_mut().get_or_insert_with(crate::run::globals).clone());
        let depth = eval.call_stack_count();
        let r = eval.eval_module(ast, &g);
        if eval.call_stack_count() != depth {
            log(json!(["stackleak", depth, eval.call_stack_count()]));
        }
        let heap = eval.heap();
        Ok(match r {
            Ok(v) => heap.alloc(("ok", v)),
            Err(e) => heap.alloc(("err", err_head(&e))),
        })
    }

    /// Record the encoding plus hash/str/repr of a named value.
    fn snapshot<'v>(
        #[starlark(require = pos)] name: &str,
        #[starlark(require = pos)] v: Value<'v>,
    ) -> anyhow::Result<NoneType> {
        log(crate::run::snapshot_json(name, v));
        Ok(NoneType)
    }

    /// Raise the cancellation flag of the running evaluation.
    fn cancel() -> anyhow::Result<NoneType> {
        CANCEL.with(|c| {
            if let Some(f) = &*c.borrow() {
                f.store(true, Ordering::SeqCst);
            }
        });
        log(json!(["cancel"]));
        Ok(NoneType)
    }

    /// Current tick count as seen by the evaluator.
    fn ticks<'v>(eval: &mut Evaluator<'v, '_, '_>) -> anyhow::Result<i64> {
        Ok(eval.get_total_tick_count() as i64)
    }

    /// Call stack depth as seen by the evaluator (includes this native's frame).
    fn stack_depth<'v>(eval: &mut Evaluator<'v, '_, '_>) -> anyhow::Result<i64> {
        Ok(eval.call_stack_count() as i64)
    }

    /// Host-side hash of a value: int, or None when unhashable.
    fn host_hash<'v>(
        #[starlark(require = pos)] v: Value<'v>,
        heap: Heap<'v>,
    ) -> anyhow::Result<Value<'v>> {
        Ok(match v.get_hashed() {
            Ok(h) => heap.alloc(h.hash().get() as i64),
            Err(_) => Value::new_none(),
        })
    }

    /// Host-side equality.
    fn host_eq<'v>(
        #[starlark(require = pos)] a: Value<'v>,
        #[starlark(require = pos)] b: Value<'v>,
        heap: Heap<'v>,
    ) -> anyhow::Result<Value<'v>> {
        Ok(match a.equals(b) {
            Ok(r) => Value::new_bool(r),
            Err(e) => heap.alloc(err_head(&e)),
        })
    }

    /// Host-side comparison: -1/0/1 or None when not comparable.
    fn host_cmp<'v>(
        #[starlark(require = pos)] a: Value<'v>,
        #[starlark(require = pos)] b: Value<'v>,
        heap: Heap<'v>,
    ) -> anyhow::Result<Value<'v>> {
        Ok(match a.compare(b) {
            Ok(o) => heap.alloc(o as i32),
            Err(_) => Value::new_none(),
        })
    }

    /// Unpack a value as a host integer type and allocate it again.
    /// ("ok", v) when the unpack succeeded, ("no",) when it was refused.
    fn host_roundtrip<'v>(
        #[starlark(require = pos)] kind: &str,
        #[starlark(require = pos)] v: Value<'v>,
        heap: Heap<'v>,
    ) -> anyhow::Result<Value<'v>> {
        use starlark::values::UnpackValue;
        macro_rules! rt {
            ($t:ty) => {
                match <$t as UnpackValue>::unpack_value(v) {
                    Ok(Some(x)) => heap.alloc(("ok", heap.alloc(x))),
                    Ok(None) => heap.alloc(("no",)),
                    Err(_) => heap.alloc(("no",)),
                }
            };
        }
        Ok(match kind {
            "i32" => rt!(i32),
            "u32" => rt!(u32),
            "i64" => rt!(i64),
            "u64" => rt!(u64),
            "usize" => rt!(usize),
            "isize" => rt!(isize),
            "big" => match <num_bigint::BigInt as UnpackValue>::unpack_value(v) {
                Ok(Some(x)) => heap.alloc(("ok", heap.alloc(x))),
                _ => heap.alloc(("no",)),
            },
            _ => return Err(anyhow::anyhow!("unknown host kind {}", kind)),
        })
    }

    /// Parse a decimal string as a host integer type and allocate it.
    fn host_alloc<'v>(
        #[starlark(require = pos)] kind: &str,
        #[starlark(require = pos)] s: &str,
        heap: Heap<'v>,
    ) -> anyhow::Result<Value<'v>> {
        macro_rules! al {
            ($t:ty) => {
                match s.parse::<$t>() {
                    Ok(x) => heap.alloc(x),
                    Err(_) => Value::new_none(),
                }
            };
        }
        Ok(match kind {
            "i32" => al!(i32),
            "u32" => al!(u32),
            "i64" => al!(i64),
            "u64" => al!(u64),
            "usize" => al!(usize),
            "isize" => al!(isize),
            "big" => match s.parse::<num_bigint::BigInt>() {
                Ok(x) => heap.alloc(x),
                Err(_) => Value::new_none(),
            },
            "f64" => match s.parse::<f64>() {
                Ok(x) => heap.alloc(x),
                Err(_) => Value::new_none(),
            },
            _ => return Err(anyhow::anyhow!("unknown host kind {}", kind)),
        })
    }

    /// Host-side `TypeCompiled::new(ty).matches(v)`; bool, or the error head as a string.
    fn host_matches<'v>(
        #[starlark(require = pos)] ty: Value<'v>,
        #[starlark(require = pos)] v: Value<'v>,
        heap: Heap<'v>,
    ) -> anyhow::Result<Value<'v>> {
        use starlark::values::typing::TypeCompiled;
        Ok(match TypeCompiled::new(ty, heap) {
            Ok(t) => Value::new_bool(t.matches(v)),
            Err(e) => heap.alloc(first_line(&format!("{:#}", e))),
        })
    }
}

/// Native functions with every kind of parameter, returning the tuple of bound values (C08, native call path).
#[starlark_module]
pub fn binding_natives(builder: &mut GlobalsBuilder) {
    fn nat_po2<'v>(#[starlark(require = pos)] a: Value<'v>, #[starlark(require = pos)] b: Value<'v>, heap: Heap<'v>) -> anyhow::Result<Value<'v>> {
        Ok(heap.alloc((a, b)))
    }
    fn nat_pk2<'v>(a: Value<'v>, b: Value<'v>, heap: Heap<'v>) -> anyhow::Result<Value<'v>> {
        Ok(heap.alloc((a, b)))
    }
    fn nat_pk_def<'v>(a: Value<'v>, #[starlark(default = 101)] b: i32, heap: Heap<'v>) -> anyhow::Result<Value<'v>> {
        Ok(heap.alloc((a, b)))
    }
    fn nat_po_pk_def<'v>(#[starlark(require = pos)] a: Value<'v>, b: Value<'v>, #[starlark(default = 102)] c: i32, heap: Heap<'v>) -> anyhow::Result<Value<'v>> {
        Ok(heap.alloc((a, b, c)))
    }
    fn nat_named<'v>(#[starlark(require = named)] d: Value<'v>, #[starlark(require = named, default = 201)] e: i32, heap: Heap<'v>) -> anyhow::Result<Value<'v>> {
        Ok(heap.alloc((d, e)))
    }
    fn nat_pk_named<'v>(a: Value<'v>, #[starlark(require = named)] d: Value<'v>, heap: Heap<'v>) -> anyhow::Result<Value<'v>> {
        Ok(heap.alloc((a, d)))
    }
    fn nat_args<'v>(a: Value<'v>, #[starlark(args)] args: UnpackTuple<Value<'v>>, heap: Heap<'v>) -> anyhow::Result<Value<'v>> {
        Ok(heap.alloc((a, heap.alloc(starlark::values::tuple::AllocTuple(args.items)))))
    }
    fn nat_kwargs<'v>(a: Value<'v>, #[starlark(kwargs)] kwargs: Value<'v>, heap: Heap<'v>) -> anyhow::Result<Value<'v>> {
        Ok(heap.alloc((a, kwargs)))
    }
    fn nat_all<'v>(
        #[starlark(require = pos)] a: Value<'v>,
        #[starlark(default = 101)] b: i32,
        #[starlark(args)] args: UnpackTuple<Value<'v>>,
        #[starlark(require = named)] d: Value<'v>,
        #[starlark(require = named, default = 201)] e: i32,
        #[starlark(kwargs)] kwargs: Value<'v>,
        heap: Heap<'v>,
    ) -> anyhow::Result<Value<'v>> {
        let args = heap.alloc(starlark::values::tuple::AllocTuple(args.items));
        Ok(heap.alloc(starlark::values::tuple::AllocTuple(vec![a, heap.alloc(b), args, d, heap.alloc(e), kwargs])))
    }
    fn nat_only_args_kwargs<'v>(#[starlark(args)] args: UnpackTuple<Value<'v>>, #[starlark(kwargs)] kwargs: Value<'v>, heap: Heap<'v>) -> anyhow::Result<Value<'v>> {
        Ok(heap.alloc((heap.alloc(starlark::values::tuple::AllocTuple(args.items)), kwargs)))
    }
}
