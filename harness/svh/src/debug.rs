//! C18: statement hook and debug adapter runs.
//!
//! hook = "noop": install a statement hook that only logs (line, continued).
//! hook = "dap" : attach the debug adapter; a client thread logs every stop (top frame line, locals) and resumes
//!                with `continue` or `step(kind)`.

use std::collections::HashMap;
use std::sync::Mutex;
use std::sync::mpsc;
use std::time::Duration;

use debugserver_types::SetBreakpointsArguments;
use debugserver_types::Source;
use debugserver_types::SourceBreakpoint;
use serde_json::Value as J;
use serde_json::json;
use starlark::debug::DapAdapter;
use starlark::debug::DapAdapterClient;
use starlark::debug::DapAdapterEvalHook;
use starlark::debug::StepKind;
use starlark::debug::prepare_dap_adapter;
use starlark::debug::resolve_breakpoints;
use starlark::environment::Module;
use starlark::eval::BeforeStmtFunc;
use starlark::eval::Evaluator;
use starlark::eval::ReturnFileLoader;
use starlark::syntax::AstModule;

use crate::canon;
use crate::natives;
use crate::natives::log;
use crate::run;

#[derive(Debug)]
struct Client {
    tx: Mutex<mpsc::Sender<()>>,
}

impl DapAdapterClient for Client {
    fn event_stopped(&self) -> starlark::Result<()> {
        let _ = self.tx.lock().unwrap().send(());
        Ok(())
    }
}

fn bp_args(path: &str, lines: &[(i64, Option<String>)]) -> SetBreakpointsArguments {
    SetBreakpointsArguments {
        breakpoints: Some(
            lines
                .iter()
                .map(|(line, cond)| SourceBreakpoint {
                    column: None,
                    condition: cond.clone(),
                    hit_condition: None,
                    line: *line,
                    log_message: None,
                })
                .collect(),
        ),
        lines: None,
        source: Source {
            adapter_data: None,
            checksums: None,
            name: None,
            origin: None,
            path: Some(path.to_owned()),
            presentation_hint: None,
            source_reference: None,
            sources: None,
        },
        source_modified: None,
    }
}

/// Evaluate on the current thread with an optional hook installer; returns the transcript.
fn evaluate(file: &str, src: &str, dialect: &starlark::syntax::Dialect, hook: Option<Box<dyn DapAdapterEvalHook>>, noop: bool) -> Vec<J> {
    natives::take_log();
    let globals = run::globals();
    let modules: HashMap<&str, &starlark::environment::FrozenModule> = HashMap::new();
    let loader = ReturnFileLoader { modules: &modules };
    let noop_fn = |span: starlark::codemap::FileSpanRef, continued: bool, _eval: &mut Evaluator| {
        let r = span.file.resolve_span(span.span);
        log(json!(["stmt", r.begin.line + 1, continued]));
    };
    match AstModule::parse(file, src.to_owned(), dialect) {
        Err(e) => log(json!(["parse_err", natives::err_head(&e)])),
        Ok(ast) => Module::with_temp_heap(|module| {
            let mut eval = Evaluator::new(&module);
            eval.set_loader(&loader);
            if let Some(h) = hook {
                h.add_dap_hooks(&mut eval);
            }
            if noop {
                eval.before_stmt_for_dap(BeforeStmtFunc::Fn(&noop_fn));
            }
            let r = eval.eval_module(ast, &globals);
            let depth = eval.call_stack_count();
            match r {
                Ok(v) => log(json!(["r", file, 0, "ok", canon::encode(v, false), depth])),
                Err(e) => log(json!(["r", file, 0, "err", run::err_json(&e, false), depth])),
            }
        }),
    }
    natives::take_log()
}

pub fn run_case(case: &J) -> Vec<J> {
    let file = case.get("file").and_then(|x| x.as_str()).unwrap_or("d.star").to_owned();
    let src = case["src"].as_str().unwrap_or("").to_owned();
    let dialect = run::dialect_from(case.get("dialect").unwrap_or(&J::Null));
    let hook = case.get("hook").and_then(|x| x.as_str()).unwrap_or("none").to_owned();
    if hook != "dap" {
        return evaluate(&file, &src, &dialect, None, hook == "noop");
    }
    let lines: Vec<(i64, Option<String>)> = case
        .get("breakpoints")
        .and_then(|b| b.as_array())
        .map(|a| {
            a.iter()
                .map(|x| match x {
                    J::Array(p) => (p[0].as_i64().unwrap_or(0), p[1].as_str().map(|s| s.to_owned())),
                    _ => (x.as_i64().unwrap_or(0), None),
                })
                .collect()
        })
        .unwrap_or_default();
    let step: Option<StepKind> = match case.get("step").and_then(|x| x.as_str()) {
        Some("into") => Some(StepKind::Into),
        Some("over") => Some(StepKind::Over),
        Some("out") => Some(StepKind::Out),
        _ => None,
    };
    let first_stop_line = case.get("stop_at_first").and_then(|x| x.as_i64());
    let eval_expr = case.get("evaluate").and_then(|x| x.as_str()).map(|s| s.to_owned());
    let max_stops = case.get("max_stops").and_then(|x| x.as_u64()).unwrap_or(5000) as usize;

    let (tx, rx) = mpsc::channel::<()>();
    let (adapter, eval_hook) = prepare_dap_adapter(Box::new(Client { tx: Mutex::new(tx) }));
    let mut stops: Vec<J> = Vec::new();
    let mut notes: Vec<J> = Vec::new();
    // breakpoints
    let mut all_lines = lines.clone();
    if let Some(l) = first_stop_line {
        all_lines.push((l, None));
    }
    match AstModule::parse(&file, src.clone(), &dialect) {
        Err(e) => return vec![json!(["parse_err", natives::err_head(&e)])],
        Ok(ast) => match resolve_breakpoints(&bp_args(&file, &all_lines), &ast) {
            Ok(bps) => {
                let resp = bps.to_response();
                let verified: Vec<J> = resp.breakpoints.iter().map(|b| json!([b.line, b.verified])).collect();
                notes.push(json!(["resolved", verified]));
                if let Err(e) = adapter.set_breakpoints(&file, &bps) {
                    notes.push(json!(["set_breakpoints_err", format!("{e:#}")]));
                }
            }
            Err(e) => notes.push(json!(["resolve_err", format!("{e:#}")])),
        },
    }
    let transcript = std::thread::scope(|s| {
        let file2 = file.clone();
        let src2 = src.clone();
        let dialect2 = dialect.clone();
        let h = std::thread::Builder::new()
            .stack_size(8 << 20)
            .spawn_scoped(s, move || evaluate(&file2, &src2, &dialect2, Some(Box::new(eval_hook)), false))
            .expect("spawn");
        let mut idle = 0;
        loop {
            match rx.recv_timeout(Duration::from_millis(50)) {
                Ok(()) => {
                    idle = 0;
                    let line = match adapter.top_frame() {
                        Ok(Some(f)) => json!([f.line, f.name]),
                        Ok(None) => J::Null,
                        Err(e) => json!(["err", format!("{e:#}")]),
                    };
                    let vars = match adapter.variables(0) {
                        Ok(v) => J::Array(v.locals.into_iter().map(|x| json!([x.name.to_string(), x.value, x.type_])).collect()),
                        Err(e) => json!(["err", format!("{e:#}")]),
                    };
                    let ev = eval_expr.as_ref().map(|e| match adapter.evaluate(e) {
                        Ok(r) => json!([r.result, r.type_]),
                        Err(e) => json!(["err", format!("{e:#}")]),
                    });
                    stops.push(json!(["stop", line, vars, ev]));
                    let r = if stops.len() >= max_stops {
                        adapter.continue_()
                    } else {
                        match step {
                            Some(k) => adapter.step(k),
                            None => adapter.continue_(),
                        }
                    };
                    if let Err(e) = r {
                        notes.push(json!(["resume_err", format!("{e:#}")]));
                    }
                }
                Err(mpsc::RecvTimeoutError::Timeout) => {
                    if h.is_finished() {
                        break;
                    }
                    idle += 1;
                    if idle > 1200 {
                        notes.push(json!(["watchdog", "no stop and no completion for 60 s"]));
                        // try to let it go
                        let _ = adapter.continue_();
                        break;
                    }
                }
                Err(mpsc::RecvTimeoutError::Disconnected) => break,
            }
        }
        drop(adapter);
        match h.join() {
            Ok(v) => v,
            Err(_) => vec![json!(["panic", "evaluation thread panicked"])],
        }
    });
    let mut out = notes;
    out.push(json!(["stops", stops]));
    out.extend(transcript);
    out
}
