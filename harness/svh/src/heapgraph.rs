//! C13: histories over frozen modules, owned handles, globals and heaps with drops in any order.
//!
//! After every operation every live object is observed again (canonical encoding of every exported
//! value, functions are called) and compared with what was recorded when the object was created.

use std::collections::BTreeMap;
use std::collections::HashMap;

use serde_json::Value as J;
use serde_json::json;
use starlark::environment::FrozenModule;
use starlark::environment::Globals;
use starlark::environment::GlobalsBuilder;
use starlark::environment::Module;
use starlark::eval::Evaluator;
use starlark::eval::ReturnFileLoader;
use starlark::syntax::AstModule;
use starlark::syntax::Dialect;
use starlark::values::FrozenHeap;
use starlark::values::FrozenHeapName;
use starlark::values::FrozenValue;
use starlark::values::OwnedFrozen;
use starlark::values::Value;

use crate::canon;
use crate::natives;
use crate::natives::log;
use crate::run;

enum Obj {
    Fm(FrozenModule),
    Of(OwnedFrozen<Value<'static>>),
    Gl(Globals, Vec<String>),
}

fn base_globals() -> Globals {
    if cfg!(miri) {
        GlobalsBuilder::new().with(natives::harness_natives).build()
    } else {
        run::globals()
    }
}

/// Encode a value; when it is callable with no arguments (our generated `f*`/`d*`), also call it.
fn observe_value(name: &str, v: OwnedFrozen<Value<'static>>, globals: &Globals) -> J {
    let enc = canon::encode(v.as_ref().value(), false);
    if name.starts_with('f') || name.starts_with('d') {
        let called = Module::with_temp_heap(|module| {
            let f = v.clone().add_to_heap(module.heap());
            let mut eval = Evaluator::new(&module);
            let _ = globals;
            match eval.eval_function(f, &[], &[]) {
                Ok(r) => canon::encode(r, false),
                Err(e) => json!(["callerr", natives::err_head(&e)]),
            }
        });
        json!([enc, called])
    } else {
        enc
    }
}

fn observe(obj: &Obj, globals: &Globals) -> J {
    match obj {
        Obj::Fm(fm) => {
            let mut m = BTreeMap::new();
            let mut names: Vec<String> = fm.names().map(|n| n.as_str().to_owned()).collect();
            names.sort();
            for n in names {
                if let Ok(v) = fm.get_owned(&n) {
                    m.insert(n.clone(), observe_value(&n, v, globals));
                }
            }
            json!(m)
        }
        Obj::Of(v) => observe_value("v", v.clone(), globals),
        Obj::Gl(g, names) => {
            let mut m = BTreeMap::new();
            for (n, v) in g.iter() {
                if names.iter().any(|x| x == n) {
                    m.insert(n.to_owned(), canon::encode(v.to_value(), false));
                }
            }
            json!(m)
        }
    }
}

fn eval_module_src(
    file: &str,
    src: &str,
    loads: &HashMap<String, String>,
    objs: &HashMap<String, Obj>,
    globals: &Globals,
    owned: &[(String, OwnedFrozen<Value<'static>>)],
    freeze: bool,
) -> Result<Option<FrozenModule>, String> {
    let ast = AstModule::parse(file, src.to_owned(), &Dialect::AllOptionsInternal).map_err(|e| format!("parse: {e:#}"))?;
    let mut modules: HashMap<&str, &FrozenModule> = HashMap::new();
    for (path, objname) in loads {
        match objs.get(objname) {
            Some(Obj::Fm(fm)) => {
                modules.insert(path.as_str(), fm);
            }
            _ => return Err(format!("load target {objname} is not a live frozen module")),
        }
    }
    let loader = ReturnFileLoader { modules: &modules };
    Module::with_temp_heap(|module| {
        for (k, o) in owned {
            let v = o.clone().add_to_heap(module.heap());
            module.set(k, v);
        }
        {
            let mut eval = Evaluator::new(&module);
            eval.set_loader(&loader);
            eval.eval_module(ast, globals).map_err(|e| format!("eval: {}", natives::err_head(&e)))?;
        }
        if freeze {
            module.freeze_named(FrozenHeapName::user(file)).map(Some).map_err(|e| format!("freeze: {e:?}"))
        } else {
            Ok(None)
        }
    })
}

pub fn run_case(case: &J) -> Vec<J> {
    natives::take_log();
    let globals = base_globals();
    let mut objs: HashMap<String, Obj> = HashMap::new();
    let mut expected: HashMap<String, J> = HashMap::new();
    #[cfg(starlark_verif)]
    let c0 = starlark::verif::counters();
    let empty = Vec::new();
    let ops = case.get("ops").and_then(|o| o.as_array()).unwrap_or(&empty);
    let mut checks = 0u64;
    for (i, op) in ops.iter().enumerate() {
        let kind = op["op"].as_str().unwrap_or("");
        let name = op["name"].as_str().unwrap_or("").to_owned();
        let mut created: Option<Obj> = None;
        match kind {
            "module" | "eval" => {
                let loads: HashMap<String, String> = op
                    .get("loads")
                    .and_then(|l| l.as_object())
                    .map(|o| o.iter().map(|(k, v)| (k.clone(), v.as_str().unwrap_or("").to_owned())).collect())
                    .unwrap_or_default();
                let mut owned = Vec::new();
                for kv in op.get("owned").and_then(|o| o.as_array()).unwrap_or(&Vec::new()) {
                    let var = kv[0].as_str().unwrap().to_owned();
                    match objs.get(kv[1].as_str().unwrap()) {
                        Some(Obj::Of(o)) => owned.push((var, o.clone())),
                        _ => log(json!(["op_err", i, "owned handle not live"])),
                    }
                }
                let gl;
                let g = match op.get("globals").and_then(|g| g.as_str()).and_then(|g| objs.get(g)) {
                    Some(Obj::Gl(g, _)) => {
                        gl = g.clone();
                        &gl
                    }
                    _ => &globals,
                };
                let file = format!("{}.star", name);
                match eval_module_src(&file, op["src"].as_str().unwrap_or(""), &loads, &objs, g, &owned, kind == "module") {
                    Ok(Some(fm)) => created = Some(Obj::Fm(fm)),
                    Ok(None) => {}
                    Err(e) => log(json!(["op_err", i, e])),
                }
            }
            "owned" => {
                let from = op["from"].as_str().unwrap_or("");
                let sym = op["sym"].as_str().unwrap_or("");
                match objs.get(from) {
                    Some(Obj::Fm(fm)) => match fm.get_owned(sym) {
                        Ok(o) => {
                            let o = if op.get("map").and_then(|m| m.as_bool()).unwrap_or(false) { o.map(|v| v) } else { o };
                            created = Some(Obj::Of(o));
                        }
                        Err(e) => log(json!(["op_err", i, format!("{e:#}")])),
                    },
                    Some(Obj::Of(o)) => created = Some(Obj::Of(o.clone())),
                    _ => log(json!(["op_err", i, "source not live"])),
                }
            }
            "forward" => {
                // re-home a handle under a fresh frozen heap which only *references* the producer
                // (alloc = false: empty arena, a pure forwarding heap) or also allocates a wrapper tuple
                let alloc = op.get("alloc").and_then(|m| m.as_bool()).unwrap_or(false);
                match objs.get(op["from"].as_str().unwrap_or("")) {
                    Some(Obj::Of(x)) => {
                        let x = x.clone();
                        let o = OwnedFrozen::<Value<'static>>::build(FrozenHeapName::user(&name), |f: &FrozenHeap| {
                            let fv: FrozenValue = x.as_ref().add_to_frozen_heap(f).unpack_frozen().expect("frozen");
                            if alloc {
                                f.alloc((fv, 7)).to_value()
                            } else {
                                fv.to_value()
                            }
                        });
                        created = Some(Obj::Of(o));
                    }
                    _ => log(json!(["op_err", i, "forward source not a live handle"])),
                }
            }
            "globals" => {
                let mut b = if cfg!(miri) { GlobalsBuilder::new().with(natives::harness_natives) } else { run::globals_builder() };
                let mut names = Vec::new();
                for kv in op.get("from").and_then(|o| o.as_array()).unwrap_or(&Vec::new()) {
                    let var = kv[0].as_str().unwrap();
                    let (m, sym) = (kv[1].as_str().unwrap(), kv[2].as_str().unwrap());
                    if let Some(Obj::Fm(fm)) = objs.get(m) {
                        if let Ok(of) = fm.get_owned(sym) {
                            b.frozen_heap().add_reference(of.owner());
                            if let Some(fv) = of.as_ref().value().unpack_frozen() {
                                b.set(var, fv);
                                names.push(var.to_owned());
                            }
                        }
                    }
                }
                // values reached through owned handles (possibly forwarded through other heaps)
                for kv in op.get("from_owned").and_then(|o| o.as_array()).unwrap_or(&Vec::new()) {
                    let var = kv[0].as_str().unwrap();
                    if let Some(Obj::Of(of)) = objs.get(kv[1].as_str().unwrap()) {
                        if let Some(fv) = of.as_ref().add_to_frozen_heap(b.frozen_heap()).unpack_frozen() {
                            b.set(var, fv);
                            names.push(var.to_owned());
                        }
                    }
                }
                created = Some(Obj::Gl(b.build(), names));
            }
            "from_globals" => {
                if let Some(Obj::Gl(g, _)) = objs.get(op["from"].as_str().unwrap_or("")) {
                    match FrozenModule::from_globals(g) {
                        Ok(fm) => created = Some(Obj::Fm(fm)),
                        Err(e) => log(json!(["op_err", i, format!("{e:?}")])),
                    }
                }
            }
            "drop" => {
                if let Some(o) = objs.remove(&name) {
                    expected.remove(&name);
                    if op.get("thread").and_then(|t| t.as_bool()).unwrap_or(false) {
                        struct SendBox(Obj);
                        unsafe impl Send for SendBox {}
                        let b = SendBox(o);
                        std::thread::spawn(move || {
                            let b = b;
                            drop(b);
                        })
                        .join()
                        .ok();
                    } else {
                        drop(o);
                    }
                }
            }
            _ => log(json!(["op_err", i, "unknown op"])),
        }
        if let Some(o) = created {
            if kind == "from_globals" {
                // only the names we put there are compared
            }
            let snap = observe(&o, &globals);
            if let Some(old) = objs.insert(name.clone(), o) {
                drop(old);
            }
            expected.insert(name.clone(), snap);
        }
        // conservation check over everything still alive
        let mut names: Vec<&String> = objs.keys().collect();
        names.sort();
        for n in names {
            let got = observe(&objs[n], &globals);
            checks += 1;
            if Some(&got) != expected.get(n) {
                log(json!(["mismatch", n, i, kind, expected.get(n), got]));
            }
        }
    }
    let live = objs.len();
    // final drops in the requested order
    let mut rest: Vec<String> = objs.keys().cloned().collect();
    rest.sort();
    if case.get("final_rev").and_then(|x| x.as_bool()).unwrap_or(false) {
        rest.reverse();
    }
    for n in rest {
        objs.remove(&n);
        for (m, o) in objs.iter() {
            let got = observe(o, &globals);
            checks += 1;
            if Some(&got) != expected.get(m) {
                log(json!(["mismatch", m, "final", "drop", expected.get(m), got]));
            }
        }
    }
    #[cfg(starlark_verif)]
    {
        let c1 = starlark::verif::counters();
        log(json!(["ctr", {"arenas": c1.arenas_dropped - c0.arenas_dropped, "poisoned": c1.bytes_poisoned - c0.bytes_poisoned,
            "quarantined": c1.bytes_quarantined - c0.bytes_quarantined, "checks": checks, "live_at_end": live}]));
    }
    natives::take_log()
}
