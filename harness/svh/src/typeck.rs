//! Static typechecker / linter runner (C17, C14): diagnostics, interface, approximations, and for each exported
//! name the rendered interface type together with `isinstance(value, <rendered type>)` after evaluating the module.

use std::collections::HashMap;

use serde_json::Value as J;
use serde_json::json;
use starlark::analysis::AstModuleLint;
use starlark::environment::Module;
use starlark::eval::Evaluator;
use starlark::syntax::AstModule;
use starlark::typing::AstModuleTypecheck;

use crate::canon;
use crate::natives;
use crate::natives::log;
use crate::run;

pub fn run_case(case: &J) -> Vec<J> {
    natives::take_log();
    let src = case["src"].as_str().unwrap_or("").to_owned();
    let file = case.get("file").and_then(|x| x.as_str()).unwrap_or("t.star");
    let dialect = run::dialect_from(case.get("dialect").unwrap_or(&J::Null));
    let globals = run::globals();
    let parse = || AstModule::parse(file, src.clone(), &dialect);
    let ast = match parse() {
        Ok(a) => a,
        Err(e) => {
            log(json!(["parse_err", natives::err_head(&e)]));
            return natives::take_log();
        }
    };
    // lint
    let lints: Vec<String> = ast.lint(None).iter().map(|l| format!("{} [{}]", l, l.short_name)).collect();
    log(json!(["lint", lints]));
    // name-resolution lints: the known globals are the standard ones only, so the harness natives
    // (emit, opaque, attempt, ...) count as undefined names wherever the file uses them
    let std_names: std::collections::HashSet<String> = starlark::environment::Globals::standard().names().map(|n| n.as_str().to_owned()).collect();
    let lints_names: Vec<String> = ast.lint(Some(&std_names)).iter().map(|l| format!("{} [{}]", l, l.short_name)).collect();
    log(json!(["lint_names", lints_names]));
    // typecheck (twice in-process: must be identical)
    let mut renders = Vec::new();
    let mut iface_keep = None;
    for _ in 0..2 {
        let ast = parse().expect("parsed before");
        let (errors, typemap, interface, approximations) = ast.typecheck(&globals, &HashMap::new());
        let errs: Vec<String> = errors.iter().map(|e| format!("{:#}", e)).collect();
        let apx: Vec<String> = approximations.iter().map(|a| a.to_string()).collect();
        renders.push(json!({"errors": errs, "typemap": typemap.to_string(), "approximations": apx}));
        iface_keep = Some((interface, errors.len(), approximations.len()));
    }
    log(json!(["typecheck", renders[0]]));
    if renders[0] != renders[1] {
        log(json!(["typecheck_unstable", renders[1]]));
    }
    let (interface, nerr, napx) = iface_keep.unwrap();
    // evaluate and confront committed types with run-time values
    if case.get("eval").and_then(|x| x.as_bool()).unwrap_or(true) {
        Module::with_temp_heap(|module| {
            let r = {
                let mut eval = Evaluator::new(&module);
                eval.eval_module(parse().expect("parsed"), &globals).map(|_| ())
            };
            match r {
                Ok(()) => log(json!(["eval", "ok"])),
                Err(e) => log(json!(["eval", "err", natives::err_head(&e)])),
            }
            let mut names: Vec<String> = module.names().map(|n| n.as_str().to_owned()).collect();
            names.sort();
            let mut out = Vec::new();
            for n in names {
                let Some(ty) = interface.get(&n) else { continue };
                let Some(v) = module.get(&n) else { continue };
                let rendered = ty.to_string();
                let check_src = format!("isinstance({}, {})", n, rendered);
                let verdict = match AstModule::parse("check.star", check_src, &dialect) {
                    Err(e) => json!(["unrenderable", natives::err_head(&e)]),
                    Ok(a) => {
                        let mut eval = Evaluator::new(&module);
                        match eval.eval_module(a, &globals) {
                            Ok(b) => json!(["isinstance", b.unpack_bool()]),
                            Err(e) => json!(["uncheckable", natives::err_head(&e)]),
                        }
                    }
                };
                out.push(json!([n, rendered, v.get_type(), canon::encode(v, false), verdict]));
            }
            log(json!(["iface", out, nerr, napx]));
        });
    }
    natives::take_log()
}
