//! svh: executes the real starlark-rust code on batches of cases and records what happened.
//! Verdicts that need a reference semantics are decided by the Python side.

mod canon;
mod debug;
mod heapgraph;
mod lsp;
mod natives;
mod parse;
mod run;
mod threads;
mod typeck;

use std::io::BufRead;
use std::io::Write;
use std::panic;

use serde_json::Value as J;
use serde_json::json;

thread_local! {
    static PANIC_MSG: std::cell::RefCell<Option<String>> = const { std::cell::RefCell::new(None) };
}

pub fn take_panic_msg() -> String {
    PANIC_MSG.with(|p| p.borrow_mut().take()).unwrap_or_default()
}

fn install_panic_hook() {
    panic::set_hook(Box::new(|info| {
        let loc = info.location().map(|l| format!("{}:{}", l.file(), l.line())).unwrap_or_default();
        let msg = if let Some(s) = info.payload().downcast_ref::<&str>() {
            (*s).to_owned()
        } else if let Some(s) = info.payload().downcast_ref::<String>() {
            s.clone()
        } else {
            "<non-string panic>".to_owned()
        };
        PANIC_MSG.with(|p| *p.borrow_mut() = Some(format!("{} @ {}", msg, loc)));
    }));
}

/// Run `f` on a fresh thread with the given stack, catching panics.
pub fn guarded<F: FnOnce() -> Vec<J> + Send + 'static>(stack_mb: usize, f: F) -> Vec<J> {
    let h = std::thread::Builder::new()
        .stack_size(stack_mb << 20)
        .spawn(move || {
            let r = panic::catch_unwind(panic::AssertUnwindSafe(f));
            match r {
                Ok(v) => v,
                Err(_) => {
                    let mut v = natives::take_log();
                    let m = PANIC_MSG.with(|p| p.borrow_mut().take()).unwrap_or_default();
                    v.push(json!(["panic", m]));
                    v
                }
            }
        })
        .expect("spawn");
    match h.join() {
        Ok(v) => v,
        Err(_) => vec![json!(["panic", "thread join failed"])],
    }
}

/// Seeded storm of allocations, junk heaps and junk frozen modules; what is returned stays alive during the batch.
fn noise(seed: u64) -> (Vec<Vec<u8>>, Vec<starlark::environment::FrozenModule>) {
    use starlark::environment::Module;
    use starlark::eval::Evaluator;
    use starlark::syntax::AstModule;
    use starlark::syntax::Dialect;
    let mut x = seed.wrapping_mul(0x9E3779B97F4A7C15) | 1;
    let mut next = move || {
        x ^= x << 13;
        x ^= x >> 7;
        x ^= x << 17;
        x
    };
    let mut keep = Vec::new();
    for _ in 0..(next() % 400) {
        let n = (next() % 70000) as usize + 1;
        let v = vec![(n & 0xff) as u8; n];
        if next() % 3 == 0 {
            keep.push(v);
        }
    }
    let globals = run::globals();
    let mut mods = Vec::new();
    for i in 0..(next() % 12) {
        let src = format!("J = [str(i) * {} for i in range({})]\ndef jf(x):\n    return [x, J]\nK = {{i: jf(i) for i in range({})}}\n", next() % 40, next() % 300, next() % 50);
        if let Ok(ast) = AstModule::parse("junk.star", src, &Dialect::Extended) {
            let fm = Module::with_temp_heap(|m| {
                {
                    let mut e = Evaluator::new(&m);
                    let _ = e.eval_module(ast, &globals);
                }
                m.freeze().ok()
            });
            if let (Some(fm), true) = (fm, i % 2 == 0) {
                mods.push(fm);
            }
        }
    }
    (keep, mods)
}

thread_local! {
    static WATCH: std::cell::RefCell<Option<(std::sync::Arc<std::sync::atomic::AtomicU64>, std::time::Instant)>> = const { std::cell::RefCell::new(None) };
}

fn main() {
    let args: Vec<String> = std::env::args().collect();
    if args.len() < 4 {
        eprintln!("usage: svh <mode> <cases.jsonl> <out.jsonl> [key=value...]");
        std::process::exit(2);
    }
    let mode = args[1].clone();
    let input = std::fs::File::open(&args[2]).expect("open input");
    let mut out = std::io::BufWriter::new(std::fs::File::create(&args[3]).expect("create output"));
    let mut opts = std::collections::HashMap::new();
    for a in &args[4..] {
        if let Some((k, v)) = a.split_once('=') {
            opts.insert(k.to_owned(), v.to_owned());
        }
    }
    install_panic_hook();
    #[cfg(starlark_verif)]
    {
        if opts.get("poison").map(|s| s == "1").unwrap_or(false) {
            starlark::verif::set_poison(true);
        }
        if let Some(q) = opts.get("quarantine").and_then(|s| s.parse::<u64>().ok()) {
            starlark::verif::set_quarantine_budget(q);
        }
    }
    let stack_mb: usize = opts.get("stack_mb").and_then(|s| s.parse().ok()).unwrap_or(8);
    let main_thread = opts.get("main_thread").map(|s| s == "1").unwrap_or(false);
    // Allocation noise: different addresses, allocator and chunk-cache states before the batch (C14).
    let _noise_keep = opts.get("noise").and_then(|s| s.parse::<u64>().ok()).map(noise);
    // Watchdog: a case that runs longer than `case_timeout_s` (wall clock) ends the process, so that the driver
    // re-runs exactly that case alone (there the verdict is taken on CPU time, never on wall clock).
    let case_started = std::sync::Arc::new(std::sync::atomic::AtomicU64::new(0));
    if let Some(limit) = opts.get("case_timeout_s").and_then(|s| s.parse::<u64>().ok()) {
        let cs = case_started.clone();
        let t0 = std::time::Instant::now();
        std::thread::spawn(move || {
            loop {
                std::thread::sleep(std::time::Duration::from_millis(500));
                let started = cs.load(std::sync::atomic::Ordering::SeqCst);
                if started != 0 && t0.elapsed().as_millis() as u64 > started + limit * 1000 {
                    eprintln!("svh watchdog: case exceeded {limit} s wall clock");
                    std::process::exit(98);
                }
            }
        });
        // make `started` relative to t0 (never 0 while a case runs)
        let cs2 = case_started.clone();
        WATCH.with(|w| *w.borrow_mut() = Some((cs2, t0)));
    }
    for line in std::io::BufReader::new(input).lines() {
        let line = line.expect("read");
        if line.trim().is_empty() {
            continue;
        }
        let case: J = serde_json::from_str(&line).expect("case json");
        let id = case["id"].clone();
        writeln!(out, "{}", json!({"start": id})).unwrap();
        out.flush().unwrap();
        WATCH.with(|w| {
            if let Some((cs, t0)) = &*w.borrow() {
                cs.store(t0.elapsed().as_millis() as u64 + 1, std::sync::atomic::Ordering::SeqCst);
            }
        });
        let mode2 = mode.clone();
        let runner = move || match mode2.as_str() {
            "run" => run::run_case(&case),
            "heapgraph" => heapgraph::run_case(&case),
            "threads" => threads::run_case(&case),
            "typecheck" => typeck::run_case(&case),
            "debug" => debug::run_case(&case),
            "parse" => parse::run_case(&case),
            "lsp" => lsp::run_case(&case),
            _ => vec![json!(["bad_mode", mode2])],
        };
        let events = if main_thread {
            match panic::catch_unwind(panic::AssertUnwindSafe(runner)) {
                Ok(v) => v,
                Err(_) => {
                    let mut v = natives::take_log();
                    let m = PANIC_MSG.with(|p| p.borrow_mut().take()).unwrap_or_default();
                    v.push(json!(["panic", m]));
                    v
                }
            }
        } else {
            guarded(stack_mb, runner)
        };
        case_started.store(0, std::sync::atomic::Ordering::SeqCst);
        writeln!(out, "{}", json!({"id": id, "ev": events})).unwrap();
        out.flush().unwrap();
    }
    writeln!(out, "{}", json!({"done": true})).unwrap();
    out.flush().unwrap();
}
