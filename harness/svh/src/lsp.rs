//! C19: drives the language server over an in-memory connection with raw JSON-RPC and records every response and
//! notification. All judgement (range well-formedness under UTF-16, resolution against the running program) is done by
//! the Python side.

use std::collections::HashMap;
use std::path::Path;
use std::path::PathBuf;
use std::sync::Arc;
use std::sync::RwLock;
use std::time::Duration;

use lsp_server::Connection;
use lsp_server::Message;
use lsp_server::Notification;
use lsp_server::Request;
use lsp_server::RequestId;
use serde_json::Value as J;
use serde_json::json;
use starlark::analysis::AstModuleLint;
use starlark::docs::DocModule;
use starlark::errors::EvalMessage;
use starlark::syntax::AstModule;
use starlark::syntax::Dialect;
use starlark_lsp::error::eval_message_to_lsp_diagnostic;
use starlark_lsp::server::LspContext;
use starlark_lsp::server::LspEvalResult;
use starlark_lsp::server::LspUri;
use starlark_lsp::server::StringLiteralResult;
use starlark_lsp::server::server_with_connection;

struct Ctx {
    files: Arc<RwLock<HashMap<PathBuf, String>>>,
}

impl LspContext for Ctx {
    fn parse_file_with_contents(&self, uri: &LspUri, content: String) -> LspEvalResult {
        match uri {
            LspUri::File(path) | LspUri::Starlark(path) => match AstModule::parse(&path.to_string_lossy(), content, &Dialect::AllOptionsInternal) {
                Ok(ast) => {
                    let diagnostics = ast.lint(None).into_iter().map(|l| eval_message_to_lsp_diagnostic(EvalMessage::from(l))).collect();
                    LspEvalResult {
                        diagnostics,
                        ast: Some(ast),
                    }
                }
                Err(e) => LspEvalResult {
                    diagnostics: vec![eval_message_to_lsp_diagnostic(EvalMessage::from_error(path, &e))],
                    ast: None,
                },
            },
            _ => LspEvalResult::default(),
        }
    }

    fn resolve_load(&self, path: &str, current_file: &LspUri, _workspace_root: Option<&Path>) -> Result<LspUri, String> {
        let path = PathBuf::from(path);
        match current_file {
            LspUri::File(cur) => {
                let abs = if path.is_absolute() {
                    path
                } else {
                    cur.parent().map(|d| d.join(&path)).ok_or_else(|| "no parent".to_owned())?
                };
                Ok(LspUri::File(abs))
            }
            _ => Err("wrong scheme".to_owned()),
        }
    }

    fn render_as_load(&self, target: &LspUri, _current_file: &LspUri, _workspace_root: Option<&Path>) -> Result<String, String> {
        match target {
            LspUri::File(p) => Ok(p.file_name().map(|f| f.to_string_lossy().into_owned()).unwrap_or_default()),
            _ => Err("wrong scheme".to_owned()),
        }
    }

    fn resolve_string_literal(&self, literal: &str, current_file: &LspUri, workspace_root: Option<&Path>) -> Result<Option<StringLiteralResult>, String> {
        self.resolve_load(literal, current_file, workspace_root).map(|uri| match &uri {
            LspUri::File(u) if u.extension().map(|e| e == "star").unwrap_or(false) => Some(StringLiteralResult {
                uri,
                location_finder: None,
            }),
            _ => None,
        })
    }

    fn get_load_contents(&self, uri: &LspUri) -> Result<Option<String>, String> {
        match uri {
            LspUri::File(u) => Ok(self.files.read().unwrap().get(u).cloned()),
            _ => Ok(None),
        }
    }

    fn get_environment(&self, _uri: &LspUri) -> DocModule {
        DocModule {
            docs: None,
            members: Default::default(),
        }
    }

    fn get_uri_for_global_symbol(&self, _current_file: &LspUri, _symbol: &str) -> Result<Option<LspUri>, String> {
        Ok(None)
    }
}

fn recv_until(conn: &Connection, want: Option<&RequestId>, out: &mut Vec<J>, tag: &J) -> Option<J> {
    // collect notifications; return the response for `want` (or drain quickly when None)
    let deadline = std::time::Instant::now() + Duration::from_secs(if want.is_some() { 30 } else { 0 });
    loop {
        let timeout = if want.is_some() {
            deadline.saturating_duration_since(std::time::Instant::now())
        } else {
            Duration::from_millis(0)
        };
        match conn.receiver.recv_timeout(timeout) {
            Ok(Message::Response(r)) => {
                let j = json!({"result": r.result, "error": r.error.map(|e| json!({"code": e.code, "message": e.message}))});
                if Some(&r.id) == want {
                    return Some(j);
                }
                out.push(json!(["stray_response", j]));
            }
            Ok(Message::Notification(n)) => out.push(json!(["notif", tag, n.method, n.params])),
            Ok(Message::Request(r)) => out.push(json!(["server_request", r.method])),
            Err(_) => return None,
        }
    }
}

pub fn run_case(case: &J) -> Vec<J> {
    let mut out: Vec<J> = Vec::new();
    let files = Arc::new(RwLock::new(HashMap::new()));
    if let Some(fs) = case.get("files").and_then(|f| f.as_object()) {
        for (k, v) in fs {
            files.write().unwrap().insert(PathBuf::from(k), v.as_str().unwrap_or("").to_owned());
        }
    }
    let (server_conn, client) = Connection::memory();
    let ctx = Ctx { files: files.clone() };
    let server = std::thread::Builder::new()
        .stack_size(8 << 20)
        .spawn(move || {
            let r = std::panic::catch_unwind(std::panic::AssertUnwindSafe(|| server_with_connection(server_conn, ctx)));
            match r {
                Ok(Ok(())) => "ok".to_owned(),
                Ok(Err(e)) => format!("error: {e}"),
                Err(_) => format!("panic: {}", crate::take_panic_msg()),
            }
        })
        .expect("spawn");
    let mut next_id = 0;
    let mut send_req = |method: &str, params: J, client: &Connection| -> RequestId {
        next_id += 1;
        let id = RequestId::from(next_id);
        let _ = client.sender.send(Message::Request(Request {
            id: id.clone(),
            method: method.to_owned(),
            params,
        }));
        id
    };
    let send_notif = |method: &str, params: J, client: &Connection| {
        let _ = client.sender.send(Message::Notification(Notification {
            method: method.to_owned(),
            params,
        }));
    };
    let id = send_req("initialize", json!({"capabilities": {}, "processId": null, "rootUri": null}), &client);
    let r = recv_until(&client, Some(&id), &mut out, &json!("init"));
    out.push(json!(["init", r.is_some()]));
    send_notif("initialized", json!({}), &client);
    let empty = Vec::new();
    let mut version = 0;
    for (i, op) in case.get("ops").and_then(|o| o.as_array()).unwrap_or(&empty).iter().enumerate() {
        if server.is_finished() {
            out.push(json!(["server_gone", i]));
            break;
        }
        let kind = op["op"].as_str().unwrap_or("");
        let uri = op.get("uri").cloned().unwrap_or(J::Null);
        let tag = json!(i);
        match kind {
            "open" => {
                version += 1;
                send_notif("textDocument/didOpen", json!({"textDocument": {"uri": uri, "languageId": "starlark", "version": version, "text": op["text"]}}), &client);
            }
            "change" => {
                version += 1;
                send_notif("textDocument/didChange", json!({"textDocument": {"uri": uri, "version": version}, "contentChanges": [{"text": op["text"]}]}), &client);
            }
            "close" => send_notif("textDocument/didClose", json!({"textDocument": {"uri": uri}}), &client),
            "definition" | "completion" | "hover" => {
                let method = match kind {
                    "definition" => "textDocument/definition",
                    "completion" => "textDocument/completion",
                    _ => "textDocument/hover",
                };
                let id = send_req(method, json!({"textDocument": {"uri": uri}, "position": {"line": op["line"], "character": op["character"]}}), &client);
                match recv_until(&client, Some(&id), &mut out, &tag) {
                    Some(r) => out.push(json!(["resp", i, kind, r])),
                    None => {
                        out.push(json!(["no_response", i, kind]));
                        break;
                    }
                }
            }
            "sync" => {
                // a harmless request used as a barrier so that notifications sent before it are all processed
                let id = send_req("textDocument/hover", json!({"textDocument": {"uri": uri}, "position": {"line": 0, "character": 0}}), &client);
                if recv_until(&client, Some(&id), &mut out, &tag).is_none() {
                    out.push(json!(["no_response", i, "sync"]));
                    break;
                }
            }
            _ => {}
        }
    }
    let id = send_req("shutdown", J::Null, &client);
    let _ = recv_until(&client, Some(&id), &mut out, &json!("shutdown"));
    send_notif("exit", J::Null, &client);
    drop(client);
    let mut waited = 0;
    while !server.is_finished() && waited < 200 {
        std::thread::sleep(Duration::from_millis(25));
        waited += 1;
    }
    if server.is_finished() {
        match server.join() {
            Ok(s) => out.push(json!(["server_end", s])),
            Err(_) => out.push(json!(["server_end", "panic: join failed"])),
        }
    } else {
        out.push(json!(["server_end", "still running after shutdown+exit"]));
    }
    out
}
