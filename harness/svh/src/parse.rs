//! C05 / C06: parser runner. For one source text and a list of dialects:
//!   * parse under catch_unwind, report ok/err;
//!   * on ok: canonical S-expression of the tree, span well-formedness problems, Display round trip;
//!   * on err: message and span well-formedness.

use serde_json::Value as J;
use serde_json::json;
use starlark::syntax::AstModule;
use starlark_syntax::codemap::CodeMap;
use starlark_syntax::codemap::Span;
use starlark_syntax::lexer::TokenInt;
use starlark_syntax::syntax::ast::*;

use crate::natives;
use crate::run;

struct W<'a> {
    src: &'a str,
    problems: Vec<String>,
    nodes: usize,
    spans: Vec<(u32, u32)>,
}

impl<'a> W<'a> {
    fn span(&mut self, what: &str, sp: Span, parent: Option<Span>) {
        self.nodes += 1;
        let (b, e) = (sp.begin().get() as usize, sp.end().get() as usize);
        self.spans.push((b as u32, e as u32));
        if self.problems.len() > 20 {
            return;
        }
        if b > e || e > self.src.len() {
            self.problems.push(format!("{what}: span {b}..{e} outside file of {} bytes", self.src.len()));
            return;
        }
        if !self.src.is_char_boundary(b) || !self.src.is_char_boundary(e) {
            self.problems.push(format!("{what}: span {b}..{e} not on char boundaries"));
        }
        if let Some(p) = parent {
            let (pb, pe) = (p.begin().get() as usize, p.end().get() as usize);
            if b < pb || e > pe {
                self.problems.push(format!("{what}: span {b}..{e} not inside parent span {pb}..{pe}"));
            }
        }
    }

    fn text(&self, sp: Span) -> &'a str {
        let (b, e) = (sp.begin().get() as usize, sp.end().get() as usize);
        if b <= e && e <= self.src.len() && self.src.is_char_boundary(b) && self.src.is_char_boundary(e) {
            &self.src[b..e]
        } else {
            ""
        }
    }

    fn ident(&mut self, what: &str, name: &str, sp: Span) {
        if self.problems.len() <= 20 && self.text(sp) != name {
            self.problems.push(format!("{what}: identifier `{name}` but its span covers `{}`", self.text(sp)));
        }
    }

    fn opt_expr(&mut self, e: &Option<Box<AstExpr>>, parent: Span) -> J {
        match e {
            None => J::Null,
            Some(e) => self.expr(e, Some(parent)),
        }
    }

    fn ty(&mut self, t: &Option<Box<AstTypeExpr>>, parent: Span) -> J {
        match t {
            None => J::Null,
            Some(t) => {
                self.span("type", t.span, Some(parent));
                self.expr(&t.node.expr, Some(t.span))
            }
        }
    }

    fn param(&mut self, p: &AstParameter, parent: Span) -> J {
        self.span("parameter", p.span, Some(parent));
        match &p.node {
            ParameterP::Slash => json!(["slash"]),
            ParameterP::NoArgs => json!(["bare_star"]),
            ParameterP::Normal(id, ty, def) => {
                self.span("param-name", id.span, Some(p.span));
                self.ident("param-name", &id.node.ident, id.span);
                let t = self.ty(ty, p.span);
                let d = self.opt_expr(def, p.span);
                json!(["param", id.node.ident, t, d])
            }
            ParameterP::Args(id, ty) => {
                self.span("param-name", id.span, Some(p.span));
                self.ident("param-name", &id.node.ident, id.span);
                let t = self.ty(ty, p.span);
                json!(["args", id.node.ident, t])
            }
            ParameterP::KwArgs(id, ty) => {
                self.span("param-name", id.span, Some(p.span));
                self.ident("param-name", &id.node.ident, id.span);
                let t = self.ty(ty, p.span);
                json!(["kwargs", id.node.ident, t])
            }
        }
    }

    fn target(&mut self, t: &AstAssignTarget, parent: Option<Span>) -> J {
        self.span("assign-target", t.span, parent);
        match &t.node {
            AssignTargetP::Tuple(xs) => {
                let mut v = vec![json!("tuple")];
                for x in xs {
                    v.push(self.target(x, Some(t.span)));
                }
                J::Array(v)
            }
            AssignTargetP::Index(ai) => {
                let a = self.expr(&ai.0, Some(t.span));
                let i = self.expr(&ai.1, Some(t.span));
                json!(["index", a, i])
            }
            AssignTargetP::Dot(e, name) => {
                let a = self.expr(e, Some(t.span));
                self.span("attr-name", name.span, Some(t.span));
                self.ident("attr-name", &name.node, name.span);
                json!(["attr", a, name.node])
            }
            AssignTargetP::Identifier(id) => {
                self.span("target-name", id.span, Some(t.span));
                self.ident("target-name", &id.node.ident, id.span);
                json!(["id", id.node.ident])
            }
        }
    }

    fn clause_for(&mut self, f: &ForClause, parent: Span) -> J {
        let t = self.target(&f.var, Some(parent));
        let o = self.expr(&f.over, Some(parent));
        json!(["for", t, o])
    }

    fn clauses(&mut self, first: &ForClause, rest: &[Clause], parent: Span) -> Vec<J> {
        let mut v = vec![self.clause_for(first, parent)];
        for c in rest {
            match c {
                ClauseP::For(f) => v.push(self.clause_for(f, parent)),
                ClauseP::If(e) => {
                    let x = self.expr(e, Some(parent));
                    v.push(json!(["if", x]));
                }
            }
        }
        v
    }

    fn expr(&mut self, e: &AstExpr, parent: Option<Span>) -> J {
        self.span("expr", e.span, parent);
        let sp = e.span;
        match &e.node {
            ExprP::Tuple(xs) => {
                let mut v = vec![json!("tuple")];
                for x in xs {
                    v.push(self.expr(x, Some(sp)));
                }
                J::Array(v)
            }
            ExprP::List(xs) => {
                let mut v = vec![json!("list")];
                for x in xs {
                    v.push(self.expr(x, Some(sp)));
                }
                J::Array(v)
            }
            ExprP::Dict(kvs) => {
                let mut v = vec![json!("dict")];
                for (k, x) in kvs {
                    let k = self.expr(k, Some(sp));
                    let x = self.expr(x, Some(sp));
                    v.push(json!([k, x]));
                }
                J::Array(v)
            }
            ExprP::Dot(a, name) => {
                let a = self.expr(a, Some(sp));
                self.span("attr-name", name.span, Some(sp));
                self.ident("attr-name", &name.node, name.span);
                json!(["attr", a, name.node])
            }
            ExprP::Call(f, args) => {
                let mut v = vec![json!("call"), self.expr(f, Some(sp))];
                for a in &args.args {
                    self.span("argument", a.span, Some(sp));
                    v.push(match &a.node {
                        ArgumentP::Positional(x) => json!(["pos", self.expr(x, Some(a.span))]),
                        ArgumentP::Named(n, x) => {
                            self.span("arg-name", n.span, Some(a.span));
                            self.ident("arg-name", &n.node, n.span);
                            json!(["kw", n.node, self.expr(x, Some(a.span))])
                        }
                        ArgumentP::Args(x) => json!(["star", self.expr(x, Some(a.span))]),
                        ArgumentP::KwArgs(x) => json!(["dstar", self.expr(x, Some(a.span))]),
                    });
                }
                J::Array(v)
            }
            ExprP::Index(ai) => {
                let a = self.expr(&ai.0, Some(sp));
                let i = self.expr(&ai.1, Some(sp));
                json!(["index", a, i])
            }
            ExprP::Index2(aij) => {
                let a = self.expr(&aij.0, Some(sp));
                let i = self.expr(&aij.1, Some(sp));
                let j = self.expr(&aij.2, Some(sp));
                json!(["index", a, ["tuple", i, j]])
            }
            ExprP::Slice(a, s, t, u) => {
                let a = self.expr(a, Some(sp));
                let s = self.opt_expr(s, sp);
                let t = self.opt_expr(t, sp);
                let u = self.opt_expr(u, sp);
                json!(["slice", a, s, t, u])
            }
            ExprP::Identifier(id) => {
                self.ident("identifier", &id.node.ident, id.span);
                json!(["id", id.node.ident])
            }
            ExprP::Lambda(l) => {
                let mut ps = Vec::new();
                for p in &l.params {
                    ps.push(self.param(p, sp));
                }
                let b = self.expr(&l.body, Some(sp));
                json!(["lambda", ps, b])
            }
            ExprP::Literal(l) => match l {
                AstLiteral::Int(i) => {
                    let s = match &i.node {
                        TokenInt::I32(x) => x.to_string(),
                        TokenInt::BigInt(b) => b.to_string(),
                    };
                    json!(["int", s])
                }
                AstLiteral::Float(f) => json!(["float", format!("{:016x}", f.node.to_bits())]),
                AstLiteral::String(s) => {
                    let t = self.text(sp);
                    if self.problems.len() <= 20 && !t.is_empty() {
                        let body = t.trim_start_matches(|c: char| c.is_ascii_alphabetic());
                        if !(body.starts_with('"') || body.starts_with('\'')) || !(body.ends_with('"') || body.ends_with('\'')) {
                            self.problems.push(format!("string literal span covers `{}`", t.chars().take(40).collect::<String>()));
                        }
                    }
                    json!(["str", s.node])
                }
                AstLiteral::Bytes(b) => json!(["bytes", b.node]),
                AstLiteral::Ellipsis => json!(["ellipsis"]),
            },
            ExprP::Not(x) => json!(["not", self.expr(x, Some(sp))]),
            ExprP::Minus(x) => json!(["neg", self.expr(x, Some(sp))]),
            ExprP::Plus(x) => json!(["pos", self.expr(x, Some(sp))]),
            ExprP::BitNot(x) => json!(["inv", self.expr(x, Some(sp))]),
            ExprP::Op(l, op, r) => {
                let l = self.expr(l, Some(sp));
                let r = self.expr(r, Some(sp));
                let name = match op {
                    BinOp::Or => "or",
                    BinOp::And => "and",
                    BinOp::Equal => "==",
                    BinOp::NotEqual => "!=",
                    BinOp::Less => "<",
                    BinOp::Greater => ">",
                    BinOp::LessOrEqual => "<=",
                    BinOp::GreaterOrEqual => ">=",
                    BinOp::In => "in",
                    BinOp::NotIn => "notin",
                    BinOp::Subtract => "-",
                    BinOp::Add => "+",
                    BinOp::Multiply => "*",
                    BinOp::Percent => "%",
                    BinOp::Divide => "/",
                    BinOp::FloorDivide => "//",
                    BinOp::BitAnd => "&",
                    BinOp::BitOr => "|",
                    BinOp::BitXor => "^",
                    BinOp::LeftShift => "<<",
                    BinOp::RightShift => ">>",
                };
                json!([name, l, r])
            }
            ExprP::If(ctf) => {
                let c = self.expr(&ctf.0, Some(sp));
                let t = self.expr(&ctf.1, Some(sp));
                let f = self.expr(&ctf.2, Some(sp));
                json!(["ifexp", c, t, f])
            }
            ExprP::ListComprehension(elt, first, rest) => {
                let x = self.expr(elt, Some(sp));
                let cl = self.clauses(first, rest, sp);
                json!(["listcomp", x, cl])
            }
            ExprP::DictComprehension(kv, first, rest) => {
                let k = self.expr(&kv.0, Some(sp));
                let v = self.expr(&kv.1, Some(sp));
                let cl = self.clauses(first, rest, sp);
                json!(["dictcomp", k, v, cl])
            }
            ExprP::FString(f) => {
                // An f-string is sugar for `"<format>".format(exprs...)`, and is printed in that form:
                // canonicalise it the same way so that print/parse round trips compare equal.
                let mut v = vec![json!("call"), json!(["attr", ["str", f.node.format.node], "format"])];
                for x in &f.node.expressions {
                    v.push(json!(["pos", self.expr(x, Some(sp))]));
                }
                J::Array(v)
            }
        }
    }

    fn block(&mut self, s: &AstStmt, parent: Option<Span>) -> J {
        let mut out = vec![json!("block")];
        self.flatten(s, parent, &mut out);
        J::Array(out)
    }

    fn flatten(&mut self, s: &AstStmt, parent: Option<Span>, out: &mut Vec<J>) {
        match &s.node {
            StmtP::Statements(xs) => {
                self.span("statements", s.span, parent);
                for x in xs {
                    self.flatten(x, Some(s.span), out);
                }
            }
            _ => out.push(self.stmt(s, parent)),
        }
    }

    fn stmt(&mut self, s: &AstStmt, parent: Option<Span>) -> J {
        self.span("stmt", s.span, parent);
        let sp = s.span;
        match &s.node {
            StmtP::Break => json!(["break"]),
            StmtP::Continue => json!(["continue"]),
            StmtP::Pass => json!(["pass"]),
            StmtP::Return(e) => match e {
                None => json!(["return", J::Null]),
                Some(e) => json!(["return", self.expr(e, Some(sp))]),
            },
            StmtP::Expression(e) => json!(["expr", self.expr(e, Some(sp))]),
            StmtP::Assign(a) => {
                let t = self.target(&a.lhs, Some(sp));
                let ty = match &a.ty {
                    None => J::Null,
                    Some(t) => {
                        self.span("type", t.span, Some(sp));
                        self.expr(&t.node.expr, Some(t.span))
                    }
                };
                let r = self.expr(&a.rhs, Some(sp));
                json!(["assign", t, ty, r])
            }
            StmtP::AssignModify(t, op, r) => {
                let t = self.target(t, Some(sp));
                let r = self.expr(r, Some(sp));
                let name = match op {
                    AssignOp::Add => "+",
                    AssignOp::Subtract => "-",
                    AssignOp::Multiply => "*",
                    AssignOp::Divide => "/",
                    AssignOp::FloorDivide => "//",
                    AssignOp::Percent => "%",
                    AssignOp::BitAnd => "&",
                    AssignOp::BitOr => "|",
                    AssignOp::BitXor => "^",
                    AssignOp::LeftShift => "<<",
                    AssignOp::RightShift => ">>",
                };
                json!(["augassign", name, t, r])
            }
            StmtP::Statements(_) => self.block(s, parent),
            StmtP::If(c, t) => {
                let c = self.expr(c, Some(sp));
                let t = self.block(t, Some(sp));
                json!(["if", c, t, J::Null])
            }
            StmtP::IfElse(c, te) => {
                let c = self.expr(c, Some(sp));
                let t = self.block(&te.0, Some(sp));
                let e = self.block(&te.1, Some(sp));
                json!(["if", c, t, e])
            }
            StmtP::For(f) => {
                let t = self.target(&f.var, Some(sp));
                let o = self.expr(&f.over, Some(sp));
                let b = self.block(&f.body, Some(sp));
                json!(["for", t, o, b])
            }
            StmtP::Def(d) => {
                self.span("def-name", d.name.span, Some(sp));
                self.ident("def-name", &d.name.node.ident, d.name.span);
                let mut ps = Vec::new();
                for p in &d.params {
                    ps.push(self.param(p, sp));
                }
                let r = self.ty(&d.return_type, sp);
                let b = self.block(&d.body, Some(sp));
                json!(["def", d.name.node.ident, ps, r, b])
            }
            StmtP::Load(l) => {
                self.span("load-module", l.module.span, Some(sp));
                let mut args = Vec::new();
                for a in &l.args {
                    self.span("load-local", a.local.span, Some(sp));
                    self.span("load-their", a.their.span, Some(sp));
                    args.push(json!([a.local.node.ident, a.their.node]));
                }
                json!(["load", l.module.node, args])
            }
        }
    }
}

fn fnv(spans: &[(u32, u32)]) -> String {
    let mut h: u64 = 0xcbf29ce484222325;
    for (a, b) in spans {
        for x in [*a, *b] {
            h = (h ^ x as u64).wrapping_mul(0x100000001b3);
        }
    }
    format!("{:016x}", h)
}

fn analyse(src: &str, ast: &AstModule) -> (J, Vec<String>, usize, String) {
    let mut w = W {
        src,
        problems: Vec::new(),
        nodes: 0,
        spans: Vec::new(),
    };
    let sexp = w.block(ast.statement(), None);
    let h = fnv(&w.spans);
    (sexp, w.problems, w.nodes, h)
}

pub fn run_case(case: &J) -> Vec<J> {
    let src = case["src"].as_str().unwrap_or("").to_owned();
    let file = case.get("file").and_then(|x| x.as_str()).unwrap_or("p.star");
    let want_sexp = case.get("sexp").and_then(|x| x.as_bool()).unwrap_or(true);
    let roundtrip = case.get("roundtrip").and_then(|x| x.as_bool()).unwrap_or(false);
    let empty = vec![J::Null];
    let dialects = case.get("dialects").and_then(|d| d.as_array()).unwrap_or(&empty);
    let mut out = Vec::new();
    for (di, dj) in dialects.iter().enumerate() {
        let dialect = run::dialect_from(dj);
        let r = std::panic::catch_unwind(std::panic::AssertUnwindSafe(|| AstModule::parse(file, src.clone(), &dialect)));
        match r {
            Err(_) => {
                let m = crate::take_panic_msg();
                out.push(json!(["panic", di, m]));
            }
            Ok(Ok(ast)) => {
                let (sexp, problems, nodes, sh) = analyse(&src, &ast);
                let mut rec = json!(["ok", di, if want_sexp { sexp.clone() } else { J::Null }, problems, nodes, sh]);
                if !want_sexp {
                    // a digest is enough to compare trees between dialects
                    rec[2] = J::String(format!("{:x}", md5ish(&sexp.to_string())));
                }
                out.push(rec);
                if roundtrip && di == 0 {
                    let printed = format!("{}", ast.statement().node);
                    match AstModule::parse(file, printed.clone(), &dialect) {
                        Err(e) => out.push(json!(["rt_reparse_failed", natives::err_head(&e), printed])),
                        Ok(ast2) => {
                            let (sexp2, _, _, _) = analyse(&printed, &ast2);
                            let printed2 = format!("{}", ast2.statement().node);
                            if sexp2 != sexp {
                                out.push(json!(["rt_tree_differs", printed, sexp, sexp2]));
                            } else if printed2 != printed {
                                out.push(json!(["rt_not_fixed_point", printed, printed2]));
                            } else {
                                out.push(json!(["rt_ok"]));
                            }
                        }
                    }
                }
            }
            Ok(Err(e)) => {
                let mut problems: Vec<String> = Vec::new();
                let msg = natives::err_head(&e);
                if msg.trim().is_empty() {
                    problems.push("error has an empty message".to_owned());
                }
                match e.span() {
                    None => problems.push("error has no span".to_owned()),
                    Some(fs) => {
                        let (b, en) = (fs.span.begin().get() as usize, fs.span.end().get() as usize);
                        let fsrc = fs.file.source();
                        if fsrc != src {
                            problems.push("error span refers to a different source text".to_owned());
                        } else if b > en || en > src.len() {
                            problems.push(format!("error span {b}..{en} outside file of {} bytes", src.len()));
                        } else if !src.is_char_boundary(b) || !src.is_char_boundary(en) {
                            problems.push(format!("error span {b}..{en} not on char boundaries"));
                        }
                    }
                }
                // rendering the error must not panic either
                let rendered = std::panic::catch_unwind(std::panic::AssertUnwindSafe(|| format!("{:#}", e)));
                if rendered.is_err() {
                    problems.push(format!("rendering the error panicked: {}", crate::take_panic_msg()));
                }
                out.push(json!(["err", di, msg, problems]));
            }
        }
    }
    let _ = CodeMap::empty_static();
    out
}

fn md5ish(s: &str) -> u64 {
    let mut h: u64 = 0xcbf29ce484222325;
    for b in s.bytes() {
        h = (h ^ b as u64).wrapping_mul(0x100000001b3);
    }
    h
}
