//! Generic case runner: evaluates a sequence of "units" (modules), records a transcript.

use std::collections::HashMap;
use std::sync::Arc;
use std::sync::atomic::AtomicBool;
use std::sync::atomic::Ordering;

use serde_json::Value as J;
use serde_json::json;
use starlark::environment::FrozenModule;
use starlark::environment::Globals;
use starlark::environment::GlobalsBuilder;
use starlark::environment::Module;
use starlark::eval::Evaluator;
use starlark::eval::ProfileMode;
use starlark::eval::ReturnFileLoader;
use starlark::syntax::AstModule;
use starlark::syntax::Dialect;
use starlark::syntax::DialectTypes;
use starlark::values::FrozenHeapName;
use starlark::values::Value;

use crate::canon;
use crate::natives;
use crate::natives::log;

pub fn kind_name(e: &starlark::Error) -> &'static str {
    use starlark::ErrorKind::*;
    match e.kind() {
        Fail(_) => "Fail",
        StackOverflow(_) => "StackOverflow",
        Value(_) => "Value",
        Function(_) => "Function",
        Scope(_) => "Scope",
        Parser(_) => "Parser",
        Freeze(_) => "Freeze",
        Internal(_) => "Internal",
        Native(_) => "Native",
        Other(_) => "Other",
        _ => "Unknown",
    }
}

pub fn dialect_from(j: &J) -> Dialect {
    match j {
        J::String(s) => match s.as_str() {
            "standard" => Dialect::Standard,
            "extended" => Dialect::Extended,
            _ => Dialect::AllOptionsInternal,
        },
        J::Object(o) => {
            let b = |k: &str, d: bool| o.get(k).and_then(|x| x.as_bool()).unwrap_or(d);
            Dialect {
                enable_def: b("def", true),
                enable_lambda: b("lambda", true),
                enable_load: b("load", true),
                enable_keyword_only_arguments: b("kwonly", true),
                enable_positional_only_arguments: b("posonly", true),
                enable_types: match o.get("types").and_then(|x| x.as_str()).unwrap_or("enable") {
                    "disable" => DialectTypes::Disable,
                    "parse" => DialectTypes::ParseOnly,
                    _ => DialectTypes::Enable,
                },
                enable_load_reexport: b("reexport", true),
                enable_top_level_stmt: b("toplevel", true),
                enable_f_strings: b("fstrings", true),
                ..Dialect::AllOptionsInternal
            }
        }
        _ => Dialect::AllOptionsInternal,
    }
}

pub fn err_json(e: &starlark::Error, full: bool) -> J {
    let span = e.span().map(|s| {
        let r = s.resolve_span();
        json!({
            "file": s.filename(),
            "bl": r.begin.line, "bc": r.begin.column, "el": r.end.line, "ec": r.end.column,
            "in_file": (s.span.end().get() as usize) <= s.file.source().len(),
        })
    });
    let stack: Vec<J> = e
        .call_stack()
        .frames
        .iter()
        .map(|f| {
            json!([f.name, f.location.as_ref().map(|l| {
                let r = l.resolve_span();
                json!([l.filename(), r.begin.line, r.begin.column, (l.span.end().get() as usize) <= l.file.source().len()])
            })])
        })
        .collect();
    let mut o = json!({
        "kind": kind_name(e),
        "msg": natives::err_head(e),
        "span": span,
        "stack": stack,
    });
    if full {
        o["full"] = J::String(format!("{:#}", e));
        o["display"] = J::String(format!("{}", e));
    }
    o
}

pub fn snapshot_json(name: &str, v: Value) -> J {
    let hash = match v.get_hashed() {
        Ok(h) => json!(h.hash().get()),
        Err(_) => J::Null,
    };
    json!(["snap", name, canon::encode(v, false), hash, v.to_str(), v.to_repr()])
}

pub fn globals() -> Globals {
    let g = globals_builder().build();
    natives::GLOBAL_NAMES.get_or_init(|| {
        let mut v: Vec<String> = g.names().map(|n| n.as_str().to_owned()).collect();
        v.sort();
        v
    });
    g
}

pub fn globals_builder() -> GlobalsBuilder {
    use starlark::environment::LibraryExtension::*;
    GlobalsBuilder::extended_by(&[
        StructType, RecordType, EnumType, NamespaceType, Map, Filter, Partial, Debug, Print, Pprint,
        Pstr, Prepr, Json, Typing, Internal, CallStack, SetType,
    ])
    .with(natives::harness_natives)
    .with(natives::binding_natives)
}

struct Printer;
impl starlark::PrintHandler for Printer {
    fn println(&self, text: &str) -> starlark::Result<()> {
        log(json!(["p", text]));
        Ok(())
    }
}

pub struct Cfg {
    pub gc_every: u64,
    pub disable_gc: bool,
    pub dialect: Dialect,
    pub profile: Option<String>,
    pub max_callstack: Option<usize>,
    pub max_ticks: Option<u64>,
    pub static_typecheck: bool,
    pub sharing: bool,
    pub full_errors: bool,
    pub reuse_eval: bool,
    pub verbose_gc: bool,
    pub probe: Option<String>,
}

impl Cfg {
    pub fn from_json(j: &J) -> Cfg {
        let u = |k: &str| j.get(k).and_then(|x| x.as_u64());
        let b = |k: &str| j.get(k).and_then(|x| x.as_bool()).unwrap_or(false);
        Cfg {
            gc_every: u("gc_every").unwrap_or(0),
            disable_gc: b("disable_gc"),
            dialect: dialect_from(j.get("dialect").unwrap_or(&J::Null)),
            profile: j.get("profile").and_then(|x| x.as_str()).map(|s| s.to_owned()),
            max_callstack: u("max_callstack").map(|x| x as usize),
            max_ticks: u("max_ticks"),
            static_typecheck: b("static_typecheck"),
            sharing: b("sharing"),
            full_errors: b("full_errors"),
            reuse_eval: b("reuse_eval"),
            verbose_gc: false,
            probe: j.get("probe").and_then(|x| x.as_str()).map(|s| s.to_owned()),
        }
    }
}

fn setup_eval<'v, 'a, 'e>(
    eval: &mut Evaluator<'v, 'a, 'e>,
    cfg: &Cfg,
    cancel: &Arc<AtomicBool>,
) -> Result<(), String> {
    if cfg.disable_gc {
        eval.disable_gc();
    }
    if let Some(p) = &cfg.profile {
        let mode: ProfileMode = p.parse().map_err(|e| format!("bad profile mode {p}: {e:?}"))?;
        eval.enable_profile(&mode).map_err(|e| format!("enable_profile: {e:#}"))?;
    }
    if let Some(n) = cfg.max_callstack {
        eval.set_max_callstack_size(n).map_err(|e| format!("set_max_callstack_size: {e:#}"))?;
    }
    if let Some(n) = cfg.max_ticks {
        eval.set_max_tick_count(n).map_err(|e| format!("set_max_tick_count: {e:#}"))?;
    }
    if cfg.static_typecheck {
        eval.enable_static_typechecking(true);
    }
    let c = cancel.clone();
    eval.set_check_cancelled(Box::new(move || c.load(Ordering::SeqCst)));
    Ok(())
}

/// Run one "eval" item on an evaluator and record the outcome.
fn do_eval<'v>(
    eval: &mut Evaluator<'v, '_, '_>,
    file: &str,
    idx: usize,
    src: &str,
    cfg: &Cfg,
    globals: &Globals,
) {
    let ast = match AstModule::parse(file, src.to_owned(), &cfg.dialect) {
        Ok(a) => a,
        Err(e) => {
            log(json!(["r", file, idx, "parse_err", err_json(&e, cfg.full_errors)]));
            return;
        }
    };
    let r = eval.eval_module(ast, globals);
    let depth = eval.call_stack_count();
    let ticks = eval.get_total_tick_count();
    match r {
        Ok(v) => log(json!(["r", file, idx, "ok", canon::encode(v, cfg.sharing), depth, ticks])),
        Err(e) => {
            log(json!(["r", file, idx, "err", err_json(&e, cfg.full_errors), depth, ticks]));
            if cfg.probe.is_some() {
                // the module must remain usable from the host after a failed evaluation
                let module = eval.module();
                let names: Vec<String> = module.names().map(|n| n.as_str().to_owned()).collect();
                let mut bound = 0;
                for n in &names {
                    if module.get(n).is_some() {
                        bound += 1;
                    }
                }
                log(json!(["module_probe", idx, names.len(), bound]));
            }
        }
    }
}

fn do_call<'v>(eval: &mut Evaluator<'v, '_, '_>, module: &Module<'v>, call: &J, cfg: &Cfg) {
    let fname = call["fn"].as_str().unwrap_or("main");
    let heap = module.heap();
    let Some(f) = module.get(fname) else {
        log(json!(["call", fname, "missing"]));
        return;
    };
    let pos: Vec<Value<'v>> = call
        .get("pos")
        .and_then(|p| p.as_array())
        .map(|a| a.iter().map(|x| canon::decode(x, heap)).collect())
        .unwrap_or_default();
    let named_owned: Vec<(String, Value<'v>)> = call
        .get("named")
        .and_then(|p| p.as_array())
        .map(|a| {
            a.iter()
                .map(|kv| (kv[0].as_str().unwrap().to_owned(), canon::decode(&kv[1], heap)))
                .collect()
        })
        .unwrap_or_default();
    let named: Vec<(&str, Value<'v>)> = named_owned.iter().map(|(k, v)| (k.as_str(), *v)).collect();
    let r = eval.eval_function(f, &pos, &named);
    let depth = eval.call_stack_count();
    let ticks = eval.get_total_tick_count();
    match r {
        Ok(v) => log(json!(["call", fname, "ok", canon::encode(v, cfg.sharing), depth, ticks])),
        Err(e) => log(json!(["call", fname, "err", err_json(&e, cfg.full_errors), depth, ticks])),
    }
}

/// Run all units of a case. Returns the transcript.
pub fn run_case(case: &J) -> Vec<J> {
    natives::take_log();
    let cfg = Cfg::from_json(case.get("cfg").unwrap_or(&J::Null));
    natives::SHARING.with(|s| s.set(cfg.sharing));
    let cancel = Arc::new(AtomicBool::new(false));
    natives::CANCEL.with(|c| *c.borrow_mut() = Some(cancel.clone()));
    #[cfg(starlark_verif)]
    starlark::verif::set_gc_every(cfg.gc_every);
    #[cfg(starlark_verif)]
    let c0 = starlark::verif::counters();

    let globals = globals();
    let mut frozen: Vec<(String, FrozenModule)> = Vec::new();
    let empty = Vec::new();
    let units = case.get("units").and_then(|u| u.as_array()).unwrap_or(&empty);
    for unit in units {
        let file = unit["file"].as_str().unwrap_or("main.star").to_owned();
        let src = unit["src"].as_str().unwrap_or("");
        let freeze = unit.get("freeze").and_then(|x| x.as_bool()).unwrap_or(false);
        let per_unit_cfg;
        let cfg = if let Some(c) = unit.get("cfg") {
            per_unit_cfg = Cfg::from_json(c);
            #[cfg(starlark_verif)]
            starlark::verif::set_gc_every(per_unit_cfg.gc_every);
            &per_unit_cfg
        } else {
            &cfg
        };
        let modules: HashMap<&str, &FrozenModule> =
            frozen.iter().map(|(k, v)| (k.as_str(), v)).collect();
        let loader = ReturnFileLoader { modules: &modules };
        let printer = Printer;
        let result: Option<FrozenModule> = Module::with_temp_heap(|module| {
            let heap = module.heap();
            if let Some(p) = unit.get("presets").and_then(|p| p.as_array()) {
                for kv in p {
                    module.set(kv[0].as_str().unwrap(), canon::decode(&kv[1], heap));
                }
            }
            if let Some(x) = unit.get("extra_value") {
                module.set_extra_value(canon::decode(x, heap));
            }
            let mut items: Vec<(String, &J)> = Vec::new();
            let main_item = json!({"src": src});
            items.push((file.clone(), &main_item));
            if let Some(evals) = unit.get("evals").and_then(|e| e.as_array()) {
                for (i, e) in evals.iter().enumerate() {
                    let f = e
                        .get("file")
                        .and_then(|x| x.as_str())
                        .map(|s| s.to_owned())
                        .unwrap_or_else(|| format!("{}#{}", file, i + 1));
                    items.push((f, e));
                }
            }
            let calls = unit.get("calls").and_then(|c| c.as_array()).cloned().unwrap_or_default();
            {
                let mut shared: Option<Evaluator> = None;
                for (idx, (f, item)) in items.iter().enumerate() {
                    let isrc = item["src"].as_str().unwrap_or("");
                    cancel.store(false, Ordering::SeqCst);
                    if cfg.reuse_eval {
                        if shared.is_none() {
                            let mut e = Evaluator::new(&module);
                            e.set_loader(&loader);
                            e.set_print_handler(&printer);
                            if let Err(m) = setup_eval(&mut e, cfg, &cancel) {
                                log(json!(["setup_err", m]));
                            }
                            shared = Some(e);
                        }
                        do_eval(shared.as_mut().unwrap(), f, idx, isrc, cfg, &globals);
                        if let Some(p) = &cfg.probe {
                            cancel.store(false, Ordering::SeqCst);
                            do_eval(shared.as_mut().unwrap(), "probe.star", idx, p, cfg, &globals);
                        }
                    } else {
                        let mut e = Evaluator::new(&module);
                        e.set_loader(&loader);
                        e.set_print_handler(&printer);
                        if let Err(m) = setup_eval(&mut e, cfg, &cancel) {
                            log(json!(["setup_err", m]));
                        }
                        do_eval(&mut e, f, idx, isrc, cfg, &globals);
                        if let Some(p) = &cfg.probe {
                            // the same evaluator must be usable again after whatever just happened
                            cancel.store(false, Ordering::SeqCst);
                            do_eval(&mut e, "probe.star", idx, p, cfg, &globals);
                        }
                        if let Some(set) = item.get("set_after").and_then(|p| p.as_array()) {
                            for kv in set {
                                module.set(kv[0].as_str().unwrap(), canon::decode(&kv[1], heap));
                            }
                        }
                        for call in item.get("calls").and_then(|c| c.as_array()).unwrap_or(&Vec::new()) {
                            do_call(&mut e, &module, call, cfg);
                        }
                        if cfg.profile.is_some() {
                            match e.gen_profile() {
                                Ok(p) => {
                                    let s = p.gen_csv().map(|s| s.len()).unwrap_or(0);
                                    log(json!(["profile", "ok", s > 0]));
                                }
                                Err(err) => log(json!(["profile", "err", natives::err_head(&err)])),
                            }
                        }
                    }
                }
                if !calls.is_empty() {
                    let mut own;
                    let e: &mut Evaluator = match shared.as_mut() {
                        Some(e) => e,
                        None => {
                            own = Evaluator::new(&module);
                            own.set_loader(&loader);
                            own.set_print_handler(&printer);
                            if let Err(m) = setup_eval(&mut own, cfg, &cancel) {
                                log(json!(["setup_err", m]));
                            }
                            &mut own
                        }
                    };
                    for call in &calls {
                        cancel.store(false, Ordering::SeqCst);
                        do_call(e, &module, call, cfg);
                    }
                }
                if let Some(mut e) = shared {
                    if cfg.profile.is_some() {
                        match e.gen_profile() {
                            Ok(_) => log(json!(["profile", "ok"])),
                            Err(err) => log(json!(["profile", "err", natives::err_head(&err)])),
                        }
                    }
                }
            }
            if let Some(x) = module.extra_value() {
                log(json!(["extra", canon::encode(x, cfg.sharing)]));
            }
            // Pre-freeze snapshots of requested names.
            let snap_names: Vec<String> = match unit.get("snapshot") {
                Some(J::Array(a)) => a.iter().filter_map(|x| x.as_str().map(|s| s.to_owned())).collect(),
                Some(J::String(s)) if s == "all" => {
                    let mut v: Vec<String> = module.names().map(|n| n.as_str().to_owned()).collect();
                    v.sort();
                    v
                }
                _ => Vec::new(),
            };
            for n in &snap_names {
                if let Some(v) = module.get(n) {
                    let mut s = snapshot_json(n, v);
                    s[0] = J::String("pre".to_owned());
                    log(s);
                }
            }
            // zero-argument callables whose call result is recorded before and after freezing
            let call_names: Vec<String> = unit
                .get("snapshot_calls")
                .and_then(|a| a.as_array())
                .map(|a| a.iter().filter_map(|x| x.as_str().map(|s| s.to_owned())).collect())
                .unwrap_or_default();
            for n in &call_names {
                if let Some(f) = module.get(n) {
                    let mut e = Evaluator::new(&module);
                    e.set_loader(&loader);
                    e.set_print_handler(&printer);
                    match e.eval_function(f, &[], &[]) {
                        Ok(v) => log(json!(["precall", n, "ok", canon::encode(v, false), v.to_repr()])),
                        Err(err) => log(json!(["precall", n, "err", natives::err_head(&err)])),
                    }
                }
            }
            if freeze {
                match module.freeze_named(FrozenHeapName::user(&file)) {
                    Ok(fm) => {
                        // host calls into the frozen module (fresh module + evaluator per call)
                        for call in unit.get("post_freeze_calls").and_then(|c| c.as_array()).unwrap_or(&Vec::new()) {
                            let fname = call["fn"].as_str().unwrap_or("main");
                            match fm.get_owned(fname) {
                                Err(_) => log(json!(["call", fname, "missing"])),
                                Ok(of) => Module::with_temp_heap(|m2| {
                                    let f = of.add_to_heap(m2.heap());
                                    let mut e2 = Evaluator::new(&m2);
                                    e2.set_loader(&loader);
                                    e2.set_print_handler(&printer);
                                    if let Err(m) = setup_eval(&mut e2, cfg, &cancel) {
                                        log(json!(["setup_err", m]));
                                    }
                                    let heap2 = m2.heap();
                                    let pos: Vec<Value> = call
                                        .get("pos")
                                        .and_then(|p| p.as_array())
                                        .map(|a| a.iter().map(|x| canon::decode(x, heap2)).collect())
                                        .unwrap_or_default();
                                    let r = e2.eval_function(f, &pos, &[]);
                                    let depth = e2.call_stack_count();
                                    let ticks = e2.get_total_tick_count();
                                    match r {
                                        Ok(v) => log(json!(["call", fname, "ok", canon::encode(v, cfg.sharing), depth, ticks])),
                                        Err(e) => log(json!(["call", fname, "err", err_json(&e, cfg.full_errors), depth, ticks])),
                                    }
                                }),
                            }
                        }
                        for n in &call_names {
                            if let Ok(of) = fm.get_owned(n) {
                                Module::with_temp_heap(|m2| {
                                    let f = of.add_to_heap(m2.heap());
                                    let mut e2 = Evaluator::new(&m2);
                                    e2.set_loader(&loader);
                                    e2.set_print_handler(&printer);
                                    match e2.eval_function(f, &[], &[]) {
                                        Ok(v) => log(json!(["postcall", n, "ok", canon::encode(v, false), v.to_repr()])),
                                        Err(err) => log(json!(["postcall", n, "err", natives::err_head(&err)])),
                                    }
                                });
                            }
                        }
                        for n in &snap_names {
                            if let Ok(v) = fm.get_owned(n) {
                                let mut s = snapshot_json(n, v.as_ref().value());
                                s[0] = J::String("post".to_owned());
                                log(s);
                            }
                        }
                        Some(fm)
                    }
                    Err(e) => {
                        log(json!(["freeze_err", file, format!("{:?}", e)]));
                        None
                    }
                }
            } else {
                None
            }
        });
        if let Some(fm) = result {
            frozen.push((file, fm));
        }
    }
    // Drop frozen modules in the requested order (default: creation order).
    if case.get("drop_rev").and_then(|x| x.as_bool()).unwrap_or(false) {
        while let Some(x) = frozen.pop() {
            drop(x);
        }
    }
    drop(frozen);
    natives::CANCEL.with(|c| *c.borrow_mut() = None);
    #[cfg(starlark_verif)]
    {
        let c1 = starlark::verif::counters();
        log(json!(["ctr", {
            "safepoints": c1.safepoints - c0.safepoints.min(c1.safepoints),
            "collections": c1.collections - c0.collections.min(c1.collections),
            "arenas": c1.arenas_dropped - c0.arenas_dropped,
            "poisoned": c1.bytes_poisoned - c0.bytes_poisoned,
            "quarantined": c1.bytes_quarantined - c0.bytes_quarantined,
        }]));
        starlark::verif::set_gc_every(0);
    }
    natives::take_log()
}
