//! svmap: reference-model monitor for the starlark_map containers (property C11).
//!
//! Interprets operation scripts against the real container and a plain `Vec` model side by side
//! and compares *every* observation after *every* step. Scripts are generated here from a seed
//! (random mode) or enumerated (exhaustive mode), so that the same binary can run under Miri.
//!
//! Output: JSON lines on stdout. `{"violation": ...}` lines are refutations; the last line is a summary.

use std::collections::HashSet;
use std::hash::Hash;
use std::hash::Hasher;
use std::panic;

use starlark_map::Hashed;
use starlark_map::StarlarkHashValue;
use starlark_map::ordered_map::OrderedMap;
use starlark_map::ordered_set::OrderedSet;
use starlark_map::small_map::Entry;
use starlark_map::small_map::SmallMap;
use starlark_map::small_set::SmallSet;
use starlark_map::sorted_map::SortedMap;
use starlark_map::sorted_set::SortedSet;
use starlark_map::sorted_vec::SortedVec;
use starlark_map::unordered_map::UnorderedMap;
use starlark_map::unordered_set::UnorderedSet;
use starlark_map::vec2::Vec2;

mod other;

// ---------------------------------------------------------------------------------------------
// keys

thread_local! {
    static PANIC_ON_CMP: std::cell::Cell<i64> = const { std::cell::Cell::new(-1) };
}

/// Key with a chosen hash input. Equality and order are by `id` only.
#[derive(Clone, Copy, Debug)]
pub struct K {
    pub id: u32,
    pub h: u32,
}

impl PartialEq for K {
    fn eq(&self, o: &K) -> bool {
        self.id == o.id
    }
}
impl Eq for K {}
impl PartialOrd for K {
    fn partial_cmp(&self, o: &K) -> Option<std::cmp::Ordering> {
        Some(self.cmp(o))
    }
}
impl Ord for K {
    fn cmp(&self, o: &K) -> std::cmp::Ordering {
        PANIC_ON_CMP.with(|p| {
            let n = p.get();
            if n == 0 {
                p.set(-1);
                panic!("svmap: injected panic in Ord::cmp");
            } else if n > 0 {
                p.set(n - 1);
            }
        });
        self.id.cmp(&o.id)
    }
}
impl Hash for K {
    fn hash<H: Hasher>(&self, state: &mut H) {
        state.write_u32(self.h);
    }
}

pub type V = u32;

// ---------------------------------------------------------------------------------------------
// rng

#[derive(Clone)]
pub struct Rng(u64);
impl Rng {
    pub fn new(seed: u64) -> Rng {
        Rng(seed.wrapping_mul(0x9E3779B97F4A7C15) ^ 0xD1B54A32D192ED03)
    }
    pub fn next(&mut self) -> u64 {
        let mut x = self.0;
        x ^= x >> 12;
        x ^= x << 25;
        x ^= x >> 27;
        self.0 = x;
        x.wrapping_mul(0x2545F4914F6CDD1D)
    }
    pub fn below(&mut self, n: usize) -> usize {
        if n == 0 { 0 } else { (self.next() % n as u64) as usize }
    }
    pub fn chance(&mut self, num: usize, den: usize) -> bool {
        self.below(den) < num
    }
}

// ---------------------------------------------------------------------------------------------
// operations

#[derive(Clone, Debug, PartialEq)]
pub enum Op {
    Insert(usize),
    InsertHashed(usize),
    InsertUnique(usize),
    InsertHashedUnique(usize),
    Remove(usize),
    RemoveEntry(usize),
    RemoveHashed(usize),
    RemoveHashedEntry(usize),
    RemoveIndex(usize),
    RemoveIndexHashed(usize),
    Pop,
    EntryOrInsert(usize),
    EntryVacantInsert(usize),
    EntryAndModify(usize),
    EntryOccupiedMut(usize),
    GetMut(usize),
    ValuesMut,
    IterMut,
    Retain(u64),
    RetainPanic(u64, usize),
    SortKeys,
    SortKeysPanic(usize),
    Reverse,
    Clear,
    Reserve(usize),
    MaybeDropIndex,
    Extend(Vec<usize>),
    CloneReplace,
    RebuildWithCapacity(usize),
    IntoIterCollect,
    IntoIterHashedCollect,
}

pub struct Universe {
    pub keys: Vec<K>,
}

impl Universe {
    fn hashed(&self, i: usize) -> Hashed<K> {
        Hashed::new(self.keys[i])
    }
}

pub struct Stats {
    pub scripts: u64,
    pub steps: u64,
    pub checks: u64,
    pub index_builds: u64,
    pub index_drops: u64,
    pub max_len: usize,
    pub states: HashSet<u64>,
    pub panics_injected: u64,
    pub threshold: usize,
}

impl Stats {
    fn new() -> Stats {
        Stats {
            scripts: 0,
            steps: 0,
            checks: 0,
            index_builds: 0,
            index_drops: 0,
            max_len: 0,
            states: HashSet::new(),
            panics_injected: 0,
            threshold: 0,
        }
    }
}

fn state_hash(model: &[(K, V)], has_index: bool) -> u64 {
    let mut h: u64 = 0xcbf29ce484222325 ^ (has_index as u64);
    for (k, v) in model {
        h = (h ^ k.id as u64).wrapping_mul(0x100000001b3);
        h = (h ^ *v as u64).wrapping_mul(0x100000001b3);
    }
    h
}

pub type Fail = String;

macro_rules! ensure {
    ($c:expr, $($arg:tt)*) => {
        if !($c) {
            return Err(format!($($arg)*));
        }
    };
}

/// Compare every observation of `map` with `model`.
pub fn check_map(map: &SmallMap<K, V>, model: &[(K, V)], uni: &Universe, light: bool) -> Result<(), Fail> {
    ensure!(map.len() == model.len(), "len {} != model {}", map.len(), model.len());
    ensure!(map.is_empty() == model.is_empty(), "is_empty mismatch");
    #[cfg(starlark_verif)]
    if let Err(e) = map.verif_check_invariants() {
        return Err(format!("index/entries invariant: {}", e));
    }
    let it: Vec<(K, V)> = map.iter().map(|(k, v)| (*k, *v)).collect();
    ensure!(it == model, "iter() {:?} != model {:?}", ids(&it), ids(model));
    ensure!(map.iter().len() == model.len(), "iter().len()");
    let ks: Vec<K> = map.keys().copied().collect();
    ensure!(ks.iter().map(|k| k.id).eq(model.iter().map(|(k, _)| k.id)), "keys() mismatch");
    let vs: Vec<V> = map.values().copied().collect();
    ensure!(vs.iter().eq(model.iter().map(|(_, v)| v)), "values() mismatch");
    for (i, (hk, v)) in map.iter_hashed().enumerate() {
        ensure!(hk.key().id == model[i].0.id && *v == model[i].1, "iter_hashed()[{}] mismatch", i);
        ensure!(hk.hash() == StarlarkHashValue::new(hk.key()), "stored hash of entry {} is wrong", i);
    }
    let rev: Vec<u32> = map.iter().rev().map(|(k, _)| k.id).collect();
    ensure!(rev.iter().eq(model.iter().rev().map(|(k, _)| &k.id)), "iter().rev() mismatch");
    for i in 0..model.len() + 2 {
        let got = map.get_index(i).map(|(k, v)| (k.id, *v));
        let want = model.get(i).map(|(k, v)| (k.id, *v));
        ensure!(got == want, "get_index({}) = {:?}, model {:?}", i, got, want);
    }
    ensure!(map.first().map(|(k, v)| (k.id, *v)) == model.first().map(|(k, v)| (k.id, *v)), "first()");
    ensure!(map.last().map(|(k, v)| (k.id, *v)) == model.last().map(|(k, v)| (k.id, *v)), "last()");
    for (ui, k) in uni.keys.iter().enumerate() {
        let pos = model.iter().position(|(mk, _)| mk.id == k.id);
        let want = pos.map(|p| model[p].1);
        ensure!(map.get(k).copied() == want, "get(key#{}) = {:?}, model {:?}", ui, map.get(k), want);
        ensure!(map.contains_key(k) == want.is_some(), "contains_key(key#{})", ui);
        ensure!(map.get_index_of(k) == pos, "get_index_of(key#{}) = {:?}, model {:?}", ui, map.get_index_of(k), pos);
        let full = map.get_full(k).map(|(i, kk, v)| (i, kk.id, *v));
        ensure!(full == pos.map(|p| (p, k.id, model[p].1)), "get_full(key#{}) = {:?}", ui, full);
        if !light {
            let h = Hashed::new(*k);
            ensure!(map.get_hashed(h.as_ref()).copied() == want, "get_hashed(key#{})", ui);
            ensure!(map.get_hashed_by_value(h).copied() == want, "get_hashed_by_value(key#{})", ui);
            ensure!(map.contains_key_hashed(h.as_ref()) == want.is_some(), "contains_key_hashed(key#{})", ui);
            ensure!(map.contains_key_hashed_by_value(h) == want.is_some(), "contains_key_hashed_by_value(key#{})", ui);
            ensure!(map.get_index_of_hashed(h.as_ref()) == pos, "get_index_of_hashed(key#{})", ui);
            ensure!(map.get_index_of_hashed_by_value(h) == pos, "get_index_of_hashed_by_value(key#{})", ui);
            let fullh = map.get_full_hashed(h.as_ref()).map(|(i, kk, v)| (i, kk.id, *v));
            ensure!(fullh == pos.map(|p| (p, k.id, model[p].1)), "get_full_hashed(key#{})", ui);
        }
    }
    if !light {
        // Equality and ordered hash against a freshly built equal map.
        let mut fresh: SmallMap<K, V> = SmallMap::new();
        for (k, v) in model {
            fresh.insert(*k, *v);
        }
        ensure!(*map == fresh, "map != freshly built equal map");
        ensure!(map.eq_ordered(&fresh), "!eq_ordered(freshly built equal map)");
        let mut h1 = std::collections::hash_map::DefaultHasher::new();
        let mut h2 = std::collections::hash_map::DefaultHasher::new();
        map.hash_ordered(&mut h1);
        fresh.hash_ordered(&mut h2);
        ensure!(h1.finish() == h2.finish(), "hash_ordered differs from freshly built equal map");
        if model.len() >= 2 {
            let mut swapped: SmallMap<K, V> = SmallMap::new();
            swapped.insert(model[1].0, model[1].1);
            swapped.insert(model[0].0, model[0].1);
            for (k, v) in &model[2..] {
                swapped.insert(*k, *v);
            }
            ensure!(*map == swapped, "PartialEq must ignore order");
            ensure!(!map.eq_ordered(&swapped), "eq_ordered must see order");
        }
    }
    Ok(())
}

fn ids(m: &[(K, V)]) -> Vec<(u32, V)> {
    m.iter().map(|(k, v)| (k.id, *v)).collect()
}

fn model_pos(model: &[(K, V)], k: &K) -> Option<usize> {
    model.iter().position(|(mk, _)| mk.id == k.id)
}

/// Apply one op to both; compare returned values.
pub fn apply(
    map: &mut SmallMap<K, V>,
    model: &mut Vec<(K, V)>,
    uni: &Universe,
    op: &Op,
    next_val: &mut V,
    stats: &mut Stats,
) -> Result<(), Fail> {
    let mut fresh = || {
        *next_val += 1;
        *next_val
    };
    match op {
        Op::Insert(i) | Op::InsertHashed(i) => {
            let k = uni.keys[*i];
            let v = fresh();
            let got = if matches!(op, Op::Insert(_)) { map.insert(k, v) } else { map.insert_hashed(uni.hashed(*i), v) };
            let want = match model_pos(model, &k) {
                Some(p) => Some(std::mem::replace(&mut model[p].1, v)),
                None => {
                    model.push((k, v));
                    None
                }
            };
            ensure!(got == want, "insert returned {:?}, model {:?}", got, want);
        }
        Op::InsertUnique(i) | Op::InsertHashedUnique(i) => {
            let k = uni.keys[*i];
            if model_pos(model, &k).is_none() {
                let v = fresh();
                let (rk, rv) = if matches!(op, Op::InsertUnique(_)) {
                    map.insert_unique_unchecked(k, v)
                } else {
                    map.insert_hashed_unique_unchecked(uni.hashed(*i), v)
                };
                ensure!(rk.id == k.id && *rv == v, "insert_unique_unchecked returned wrong refs");
                model.push((k, v));
            }
        }
        Op::Remove(i) | Op::RemoveHashed(i) => {
            let k = uni.keys[*i];
            let got = if matches!(op, Op::Remove(_)) { map.shift_remove(&k) } else { map.shift_remove_hashed(uni.hashed(*i).as_ref()) };
            let want = model_pos(model, &k).map(|p| model.remove(p).1);
            ensure!(got == want, "shift_remove returned {:?}, model {:?}", got, want);
        }
        Op::RemoveEntry(i) | Op::RemoveHashedEntry(i) => {
            let k = uni.keys[*i];
            let got = if matches!(op, Op::RemoveEntry(_)) {
                map.shift_remove_entry(&k)
            } else {
                map.shift_remove_hashed_entry(uni.hashed(*i).as_ref())
            };
            let want = model_pos(model, &k).map(|p| model.remove(p));
            ensure!(got.map(|(k, v)| (k.id, v)) == want.map(|(k, v)| (k.id, v)), "shift_remove_entry mismatch");
        }
        Op::RemoveIndex(i) => {
            let got = map.shift_remove_index(*i);
            let want = if *i < model.len() { Some(model.remove(*i)) } else { None };
            ensure!(got.map(|(k, v)| (k.id, v)) == want.map(|(k, v)| (k.id, v)), "shift_remove_index({}) mismatch", i);
        }
        Op::RemoveIndexHashed(i) => {
            let got = map.shift_remove_index_hashed(*i);
            let want = if *i < model.len() { Some(model.remove(*i)) } else { None };
            if let Some((hk, _)) = &got {
                ensure!(hk.hash() == StarlarkHashValue::new(hk.key()), "shift_remove_index_hashed returned a wrong hash");
            }
            ensure!(
                got.map(|(k, v)| (k.key().id, v)) == want.map(|(k, v)| (k.id, v)),
                "shift_remove_index_hashed({}) mismatch",
                i
            );
        }
        Op::Pop => {
            let got = map.pop();
            let want = model.pop();
            ensure!(got.map(|(k, v)| (k.id, v)) == want.map(|(k, v)| (k.id, v)), "pop mismatch");
        }
        Op::EntryOrInsert(i) => {
            let k = uni.keys[*i];
            let v = fresh();
            let got = *map.entry(k).or_insert(v);
            let want = match model_pos(model, &k) {
                Some(p) => model[p].1,
                None => {
                    model.push((k, v));
                    v
                }
            };
            ensure!(got == want, "entry().or_insert() returned {:?}, model {:?}", got, want);
        }
        Op::EntryVacantInsert(i) => {
            let k = uni.keys[*i];
            let v = fresh();
            match map.entry_hashed(uni.hashed(*i)) {
                Entry::Occupied(o) => {
                    let p = model_pos(model, &k);
                    ensure!(p.is_some(), "entry is Occupied but model has no such key");
                    ensure!(o.key().id == k.id && *o.get() == model[p.unwrap()].1, "OccupiedEntry key/value");
                }
                Entry::Vacant(e) => {
                    ensure!(model_pos(model, &k).is_none(), "entry is Vacant but model has the key");
                    ensure!(e.key().id == k.id, "VacantEntry::key");
                    let r = e.insert(v);
                    ensure!(*r == v, "VacantEntry::insert returned wrong ref");
                    model.push((k, v));
                }
            }
        }
        Op::EntryAndModify(i) => {
            let k = uni.keys[*i];
            let v = fresh();
            let got = *map.entry(k).and_modify(|x| *x = x.wrapping_add(1_000_000)).or_insert(v);
            let want = match model_pos(model, &k) {
                Some(p) => {
                    model[p].1 = model[p].1.wrapping_add(1_000_000);
                    model[p].1
                }
                None => {
                    model.push((k, v));
                    v
                }
            };
            ensure!(got == want, "and_modify().or_insert() = {}, model {}", got, want);
        }
        Op::EntryOccupiedMut(i) => {
            let k = uni.keys[*i];
            if let Entry::Occupied(mut o) = map.entry(k) {
                let p = model_pos(model, &k);
                ensure!(p.is_some(), "Occupied but absent in model");
                *o.get_mut() ^= 0x4000_0000;
                model[p.unwrap()].1 ^= 0x4000_0000;
                let (kk, vv) = o.as_key_and_mut_value();
                ensure!(kk.id == k.id && *vv == model[p.unwrap()].1, "as_key_and_mut_value");
                let r = o.into_mut();
                ensure!(*r == model[p.unwrap()].1, "into_mut");
            } else {
                ensure!(model_pos(model, &k).is_none(), "Vacant but present in model");
            }
        }
        Op::GetMut(i) => {
            let k = uni.keys[*i];
            let p = model_pos(model, &k);
            let alt = stats.steps % 2 == 0;
            let got = if alt { map.get_mut(&k) } else { map.get_mut_hashed(uni.hashed(*i).as_ref()) };
            match (got, p) {
                (Some(r), Some(p)) => {
                    *r = r.wrapping_add(7);
                    model[p].1 = model[p].1.wrapping_add(7);
                }
                (None, None) => {}
                _ => return Err("get_mut presence differs from model".to_owned()),
            }
        }
        Op::ValuesMut => {
            for v in map.values_mut() {
                *v = v.wrapping_add(3);
            }
            for (_, v) in model.iter_mut() {
                *v = v.wrapping_add(3);
            }
        }
        Op::IterMut => {
            let mut n = 0;
            for (k, v) in map.iter_mut() {
                ensure!(n < model.len() && k.id == model[n].0.id, "iter_mut order");
                *v = v.wrapping_add(5);
                n += 1;
            }
            ensure!(n == model.len(), "iter_mut length");
            for (_, v) in model.iter_mut() {
                *v = v.wrapping_add(5);
            }
        }
        Op::Retain(mask) => {
            let keep = |k: &K| (mask >> (k.id % 64)) & 1 == 1;
            map.retain(|k, v| {
                *v = v.wrapping_add(1);
                keep(k)
            });
            for (_, v) in model.iter_mut() {
                *v = v.wrapping_add(1);
            }
            model.retain(|(k, _)| keep(k));
        }
        Op::RetainPanic(mask, at) => {
            let keep = |k: &K| (mask >> (k.id % 64)) & 1 == 1;
            let before: Vec<(K, V)> = model.clone();
            let mut visited: Vec<(u32, bool)> = Vec::new();
            let _ = &visited;
            let at = *at;
            let r = panic::catch_unwind(panic::AssertUnwindSafe(|| {
                map.retain(|k, _v| {
                    if visited.len() == at {
                        panic!("svmap: injected panic in retain predicate");
                    }
                    let b = keep(k);
                    visited.push((k.id, b));
                    b
                });
            }));
            if r.is_ok() {
                model.retain(|(k, _)| keep(k));
            } else {
                stats.panics_injected += 1;
                // After a panic in the user's predicate the property does not say which entries
                // survive; what must hold: no invented, duplicated or reordered entries, and the
                // container is internally consistent (checked by the full check that follows).
                let now: Vec<(K, V)> = map.iter().map(|(k, v)| (*k, *v)).collect();
                let mut bi = 0;
                for (k, v) in &now {
                    let mut found = false;
                    while bi < before.len() {
                        let (bk, bv) = before[bi];
                        bi += 1;
                        if bk.id == k.id && bv == *v {
                            found = true;
                            break;
                        }
                    }
                    ensure!(found, "after panicking retain: entry {:?} invented/reordered/duplicated", (k.id, v));
                }
                *model = now;
            }
        }
        Op::SortKeys => {
            map.sort_keys();
            model.sort_by_key(|(k, _)| k.id);
        }
        Op::SortKeysPanic(n) => {
            PANIC_ON_CMP.with(|p| p.set(*n as i64));
            let r = panic::catch_unwind(panic::AssertUnwindSafe(|| map.sort_keys()));
            PANIC_ON_CMP.with(|p| p.set(-1));
            if r.is_ok() {
                model.sort_by_key(|(k, _)| k.id);
            } else {
                stats.panics_injected += 1;
                let now: Vec<(K, V)> = map.iter().map(|(k, v)| (*k, *v)).collect();
                // Which entries survive a panicking comparator is unspecified; none may be invented
                // or duplicated, and the container must stay internally consistent.
                let a = ids(&now);
                let b = ids(model);
                let mut seen = HashSet::new();
                for e in &a {
                    ensure!(b.contains(e), "after panicking sort_keys: entry {:?} invented", e);
                    ensure!(seen.insert(e.0), "after panicking sort_keys: key id {} duplicated", e.0);
                }
                *model = now;
            }
        }
        Op::Reverse => {
            map.reverse();
            model.reverse();
        }
        Op::Clear => {
            map.clear();
            model.clear();
        }
        Op::Reserve(n) => {
            map.reserve(*n);
            ensure!(map.capacity() >= model.len() + n, "capacity after reserve");
        }
        Op::MaybeDropIndex => {
            map.maybe_drop_index();
        }
        Op::Extend(ks) => {
            let mut pairs = Vec::new();
            for i in ks {
                let v = fresh();
                pairs.push((uni.keys[*i], v));
            }
            map.extend(pairs.iter().copied());
            for (k, v) in pairs {
                match model_pos(model, &k) {
                    Some(p) => model[p].1 = v,
                    None => model.push((k, v)),
                }
            }
        }
        Op::CloneReplace => {
            let c = map.clone();
            ensure!(c == *map && c.eq_ordered(map), "clone not equal to original");
            *map = c;
        }
        Op::RebuildWithCapacity(n) => {
            let mut m2 = SmallMap::with_capacity(*n);
            for (k, v) in map.iter() {
                m2.insert(*k, *v);
            }
            *map = m2;
        }
        Op::IntoIterCollect => {
            let old = std::mem::take(map);
            let ks: Vec<u32> = old.clone().into_keys().map(|k| k.id).collect();
            ensure!(ks.iter().eq(model.iter().map(|(k, _)| &k.id)), "into_keys");
            let vs: Vec<V> = old.clone().into_values().collect();
            ensure!(vs.iter().eq(model.iter().map(|(_, v)| v)), "into_values");
            // partially consumed owning iterator dropped
            let mut it = old.clone().into_iter();
            let _ = it.next();
            let _ = it.next_back();
            drop(it);
            *map = old.into_iter().collect();
        }
        Op::IntoIterHashedCollect => {
            let old = std::mem::take(map);
            let mut m2 = SmallMap::new();
            for (hk, v) in old.into_iter_hashed() {
                m2.insert_hashed(hk, v);
            }
            *map = m2;
        }
    }
    Ok(())
}

pub fn op_to_string(op: &Op) -> String {
    format!("{:?}", op)
}

fn report_violation(kind: &str, msg: &str, uni: &Universe, start: &str, script: &[Op], step: usize) {
    let ops: Vec<String> = script.iter().map(|o| format!("\"{}\"", op_to_string(o))).collect();
    let keys: Vec<String> = uni.keys.iter().map(|k| format!("[{},{}]", k.id, k.h)).collect();
    println!(
        "{{\"violation\":\"{}\",\"container\":\"{}\",\"start\":\"{}\",\"step\":{},\"keys\":[{}],\"script\":[{}]}}",
        msg.replace('\\', "/").replace('"', "'"),
        kind,
        start,
        step,
        keys.join(","),
        ops.join(",")
    );
}

/// Run one script on SmallMap. Returns false on violation (already reported).
fn run_script(
    uni: &Universe,
    start: &str,
    prefill: &[usize],
    with_cap: usize,
    script: &[Op],
    light: bool,
    stats: &mut Stats,
) -> bool {
    let mut map: SmallMap<K, V> = if with_cap > 0 { SmallMap::with_capacity(with_cap) } else { SmallMap::new() };
    let mut model: Vec<(K, V)> = Vec::new();
    let mut next_val: V = 0;
    for i in prefill {
        next_val += 1;
        map.insert(uni.keys[*i], next_val);
        model.push((uni.keys[*i], next_val));
    }
    stats.scripts += 1;
    #[cfg(starlark_verif)]
    let mut had_index = map.verif_has_index();
    for (si, op) in script.iter().enumerate() {
        let r = panic::catch_unwind(panic::AssertUnwindSafe(|| {
            apply(&mut map, &mut model, uni, op, &mut next_val, stats)?;
            check_map(&map, &model, uni, light && (si % 8 != 7))
        }));
        stats.steps += 1;
        stats.checks += 1;
        match r {
            Ok(Ok(())) => {}
            Ok(Err(msg)) => {
                report_violation("SmallMap", &msg, uni, start, &script[..=si], si);
                return false;
            }
            Err(_) => {
                report_violation("SmallMap", "panic in container code", uni, start, &script[..=si], si);
                return false;
            }
        }
        #[cfg(starlark_verif)]
        {
            let hi = map.verif_has_index();
            if hi && !had_index {
                stats.index_builds += 1;
            }
            if !hi && had_index {
                stats.index_drops += 1;
            }
            had_index = hi;
            if stats.states.len() < 2_000_000 {
                stats.states.insert(state_hash(&model, hi));
            }
        }
        stats.max_len = stats.max_len.max(model.len());
    }
    true
}

// ---------------------------------------------------------------------------------------------
// universes

fn natural(h: u32) -> StarlarkHashValue {
    StarlarkHashValue::new(&K { id: 0, h })
}

/// Build a universe of `n` keys with a mix of full collisions, partial (hashbrown tag/bucket)
/// collisions and distinct hashes.
fn make_universe(n: usize, rng: &mut Rng, adversarial: bool) -> Universe {
    let mut keys = Vec::new();
    // hash inputs whose promoted hashes agree in the low 6 bits and the top 7 bits (same group, same tag)
    let mut partial: Vec<u32> = Vec::new();
    if adversarial && !cfg!(miri) {
        let target = natural(1).promote();
        let mut h = 2u32;
        while partial.len() < 12 && h < 2_000_000 {
            let p = natural(h).promote();
            if (p & 0x3f) == (target & 0x3f) && (p >> 57) == (target >> 57) {
                partial.push(h);
            }
            h += 1;
        }
    }
    for id in 0..n {
        let h = if !adversarial {
            1000 + id as u32
        } else {
            match rng.below(10) {
                0..=2 => 7,                             // one big full-collision class
                3 => 8 + rng.below(3) as u32,           // a few small classes
                4..=5 if !partial.is_empty() => partial[rng.below(partial.len())],
                _ => 1000 + id as u32,
            }
        };
        keys.push(K { id: id as u32, h });
    }
    Universe { keys }
}

fn detect_threshold() -> usize {
    #[cfg(starlark_verif)]
    {
        let mut m: SmallMap<K, V> = SmallMap::new();
        for i in 0..200u32 {
            m.insert(K { id: i, h: i }, i);
            if m.verif_has_index() {
                return i as usize; // number of entries that still had no index
            }
        }
    }
    16
}

// ---------------------------------------------------------------------------------------------
// random scripts

fn random_op(rng: &mut Rng, uni: &Universe, cur_len: usize, want_grow: bool, profile: &str) -> Op {
    let nk = uni.keys.len();
    let k = rng.below(nk);
    let grow_bias = if want_grow { 70 } else { 30 };
    let r = rng.below(100);
    if r < grow_bias {
        match rng.below(9) {
            0 | 1 => Op::Insert(k),
            2 => Op::InsertHashed(k),
            3 => Op::InsertUnique(k),
            4 => Op::InsertHashedUnique(k),
            5 => Op::EntryOrInsert(k),
            6 => Op::EntryVacantInsert(k),
            7 => Op::EntryAndModify(k),
            _ => Op::Extend((0..rng.below(5)).map(|_| rng.below(nk)).collect()),
        }
    } else if r < 85 || profile == "remove" {
        let idx = if cur_len > 0 && rng.chance(9, 10) { rng.below(cur_len) } else { cur_len + rng.below(3) };
        match rng.below(9) {
            0 => Op::Remove(k),
            1 => Op::RemoveEntry(k),
            2 => Op::RemoveHashed(k),
            3 => Op::RemoveHashedEntry(k),
            4 => Op::RemoveIndex(idx),
            5 => Op::RemoveIndexHashed(idx),
            6 => Op::Pop,
            7 => Op::RemoveIndex(0),
            _ => Op::RemoveIndex(cur_len.saturating_sub(1)),
        }
    } else {
        let heavy = profile == "sort";
        match rng.below(if heavy { 12 } else { 24 }) {
            0 | 1 => Op::Reverse,
            2 | 3 => Op::SortKeys,
            4 => Op::Retain(rng.next() | rng.next()),
            5 => Op::Retain(rng.next()),
            6 => Op::RetainPanic(rng.next() | rng.next(), rng.below(cur_len + 1)),
            7 => Op::SortKeysPanic(rng.below(cur_len * 2 + 1)),
            8 => Op::MaybeDropIndex,
            9 => Op::CloneReplace,
            10 => Op::IntoIterCollect,
            11 => Op::IntoIterHashedCollect,
            12 => Op::Reserve(rng.below(40)),
            13 => Op::RebuildWithCapacity(rng.below(40)),
            14 => Op::GetMut(k),
            15 => Op::ValuesMut,
            16 => Op::IterMut,
            17 => Op::EntryOccupiedMut(k),
            18 => {
                if rng.chance(1, 6) {
                    Op::Clear
                } else {
                    Op::MaybeDropIndex
                }
            }
            19 => Op::Retain(rng.next() & rng.next()),
            _ => Op::GetMut(k),
        }
    }
}

fn run_random(seed: u64, nscripts: usize, len: usize, profile: &str, light: bool, nkeys_opt: usize, prefill_below: i64, stats: &mut Stats) -> bool {
    let mut rng = Rng::new(seed);
    for _ in 0..nscripts {
        let nkeys = if nkeys_opt > 0 { nkeys_opt } else { 20 + rng.below(60) };
        let uni = make_universe(nkeys, &mut rng, true);
        // the script is generated while tracking the expected length so that the length performs a
        // random walk across the index threshold.
        let mut script = Vec::with_capacity(len);
        let prefill: Vec<usize> = if prefill_below >= 0 {
            (0..(stats.threshold as i64 - prefill_below).max(0) as usize).map(|i| i % nkeys).collect()
        } else {
            Vec::new()
        };
        let mut est: usize = prefill.len().min(nkeys);
        let mut target = rng.below(stats.threshold * 2 + 8);
        for _ in 0..len {
            if est == target || rng.chance(1, 40) {
                target = match rng.below(4) {
                    0 => 0,
                    1 => stats.threshold.saturating_sub(1 + rng.below(3)),
                    2 => stats.threshold + 1 + rng.below(4),
                    _ => rng.below(stats.threshold * 2 + 8).min(nkeys),
                };
            }
            let op = random_op(&mut rng, &uni, est, est < target, profile);
            match &op {
                Op::Insert(_) | Op::InsertHashed(_) | Op::InsertUnique(_) | Op::InsertHashedUnique(_) | Op::EntryOrInsert(_)
                | Op::EntryVacantInsert(_) | Op::EntryAndModify(_) => est = (est + 1).min(nkeys),
                Op::Extend(v) => est = (est + v.len()).min(nkeys),
                Op::Remove(_) | Op::RemoveEntry(_) | Op::RemoveHashed(_) | Op::RemoveHashedEntry(_) | Op::RemoveIndex(_)
                | Op::RemoveIndexHashed(_) | Op::Pop => est = est.saturating_sub(1),
                Op::Clear => est = 0,
                Op::Retain(_) | Op::RetainPanic(..) => est /= 2,
                _ => {}
            }
            script.push(op);
        }
        if !run_script(&uni, if prefill.is_empty() { "empty" } else { "prefilled" }, &prefill, 0, &script, light, stats) {
            return false;
        }
    }
    true
}

// ---------------------------------------------------------------------------------------------
// exhaustive short scripts

fn exhaustive_alphabet() -> Vec<Op> {
    let mut a = Vec::new();
    for k in 0..3 {
        a.push(Op::Insert(k));
        a.push(Op::Remove(k));
        a.push(Op::EntryOrInsert(k));
        a.push(Op::InsertUnique(k));
    }
    a.push(Op::Pop);
    a.push(Op::RemoveIndex(0));
    a.push(Op::RemoveIndex(1));
    a.push(Op::Reverse);
    a.push(Op::SortKeys);
    a.push(Op::Retain(0b110)); // drop key 0 (and every filler whose id % 64 is not 1 or 2)
    a.push(Op::Retain(!0b010)); // drop key 1
    a.push(Op::Clear);
    a.push(Op::MaybeDropIndex);
    a
}

fn run_exhaustive(len: usize, shard: usize, nshards: usize, stats: &mut Stats) -> bool {
    let t = stats.threshold;
    // universe: 3 active keys (0 and 1 collide fully, 2 distinct) + fillers with ids >= 64*k+1 pattern
    let mut keys = vec![K { id: 0, h: 7 }, K { id: 1, h: 7 }, K { id: 2, h: 9 }];
    let nfill = t + 2;
    for i in 0..nfill {
        // filler ids are congruent to 1 or 2 mod 64 alternately so Retain(0b110) keeps them
        let id = 64 * (i as u32 + 1) + 1 + (i as u32 % 2);
        keys.push(K { id, h: if i % 3 == 0 { 7 } else { 100 + i as u32 } });
    }
    let uni = Universe { keys };
    let fill = |n: usize| -> Vec<usize> { (3..3 + n).collect() };
    let starts: Vec<(&str, Vec<usize>, usize)> = vec![
        ("empty", vec![], 0),
        ("empty+index", vec![], t + 1),
        ("fill(threshold-2)", fill(t.saturating_sub(2)), 0),
        ("fill(threshold)", fill(t), 0),
        ("fill(threshold+1)", fill(t + 1), 0),
    ];
    let alpha = exhaustive_alphabet();
    let n = alpha.len();
    let mut total: u64 = 1;
    for _ in 0..len {
        total *= n as u64;
    }
    let mut idx = shard as u64;
    let mut script: Vec<Op> = Vec::with_capacity(len);
    while idx < total {
        script.clear();
        let mut x = idx;
        for _ in 0..len {
            script.push(alpha[(x % n as u64) as usize].clone());
            x /= n as u64;
        }
        for (name, prefill, cap) in &starts {
            if !run_script(&uni, name, prefill, *cap, &script, true, stats) {
                return false;
            }
        }
        idx += nshards as u64;
    }
    true
}

// ---------------------------------------------------------------------------------------------

fn main() {
    let args: Vec<String> = std::env::args().collect();
    let mut opts = std::collections::HashMap::new();
    for a in &args[1..] {
        if let Some((k, v)) = a.split_once('=') {
            opts.insert(k.to_owned(), v.to_owned());
        }
    }
    let get = |k: &str, d: u64| -> u64 { opts.get(k).and_then(|s| s.parse().ok()).unwrap_or(d) };
    let mode = opts.get("mode").cloned().unwrap_or_else(|| "random".to_owned());
    panic::set_hook(Box::new(|_| {}));
    let mut stats = Stats::new();
    stats.threshold = detect_threshold();
    let ok = match mode.as_str() {
        "random" => {
            let profile = opts.get("profile").cloned().unwrap_or_else(|| "mixed".to_owned());
            run_random(get("seed", 1), get("scripts", 10) as usize, get("len", 500) as usize, &profile, get("light", 0) == 1, get("nkeys", 0) as usize, opts.get("prefill_below").and_then(|s| s.parse::<i64>().ok()).unwrap_or(-1), &mut stats)
        }
        "exhaustive" => run_exhaustive(get("len", 3) as usize, get("shard", 0) as usize, get("nshards", 1) as usize, &mut stats),
        "other" => other::run_other(get("seed", 1), get("scripts", 10) as usize, get("len", 300) as usize, &mut stats),
        _ => {
            eprintln!("unknown mode");
            std::process::exit(2);
        }
    };
    println!(
        "{{\"summary\":true,\"mode\":\"{}\",\"ok\":{},\"scripts\":{},\"steps\":{},\"checks\":{},\"index_builds\":{},\"index_drops\":{},\"max_len\":{},\"distinct_states\":{},\"panics_injected\":{},\"threshold\":{},\"hooks\":{},\"nightly_simd\":{}}}",
        mode,
        ok,
        stats.scripts,
        stats.steps,
        stats.checks,
        stats.index_builds,
        stats.index_drops,
        stats.max_len,
        stats.states.len(),
        stats.panics_injected,
        stats.threshold,
        cfg!(starlark_verif),
        stats.threshold >= 32
    );
    // Keep unused-import warnings quiet for types only used in `other`.
    let _ = (
        std::mem::size_of::<OrderedMap<K, V>>(),
        std::mem::size_of::<OrderedSet<K>>(),
        std::mem::size_of::<SmallSet<K>>(),
        std::mem::size_of::<SortedMap<K, V>>(),
        std::mem::size_of::<SortedSet<K>>(),
        std::mem::size_of::<SortedVec<K>>(),
        std::mem::size_of::<UnorderedMap<K, V>>(),
        std::mem::size_of::<UnorderedSet<K>>(),
        std::mem::size_of::<Vec2<K, V>>(),
    );
    std::process::exit(if ok { 0 } else { 1 });
}
