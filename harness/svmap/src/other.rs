//! Model checks for SmallSet, OrderedMap/Set, SortedMap/Set/Vec, UnorderedMap/Set and Vec2.

use std::collections::HashMap;
use std::collections::hash_map::DefaultHasher;
use std::hash::Hash;
use std::hash::Hasher;
use std::panic;

use starlark_map::Hashed;
use starlark_map::ordered_map::OrderedMap;
use starlark_map::ordered_set::OrderedSet;
use starlark_map::small_map::SmallMap;
use starlark_map::small_set::SmallSet;
use starlark_map::sorted_map::SortedMap;
use starlark_map::sorted_set::SortedSet;
use starlark_map::sorted_vec::SortedVec;
use starlark_map::unordered_map::UnorderedMap;
use starlark_map::unordered_set::UnorderedSet;
use starlark_map::vec2::Vec2;

use crate::K;
use crate::Rng;
use crate::Stats;
use crate::V;

type R = Result<(), String>;

macro_rules! ensure {
    ($c:expr, $($arg:tt)*) => {
        if !($c) {
            return Err(format!($($arg)*));
        }
    };
}

fn hash_of<T: Hash>(t: &T) -> u64 {
    let mut h = DefaultHasher::new();
    t.hash(&mut h);
    h.finish()
}

fn keys(n: usize, rng: &mut Rng) -> Vec<K> {
    (0..n)
        .map(|id| K {
            id: id as u32,
            h: match rng.below(4) {
                0 => 7,
                1 => 8 + rng.below(2) as u32,
                _ => 1000 + id as u32,
            },
        })
        .collect()
}

// ---------------------------------------------------------------------------------------------

fn check_set(set: &SmallSet<K>, model: &[K], uni: &[K]) -> R {
    ensure!(set.len() == model.len(), "SmallSet len {} != {}", set.len(), model.len());
    ensure!(set.is_empty() == model.is_empty(), "SmallSet is_empty");
    #[cfg(starlark_verif)]
    if let Err(e) = set.verif_check_invariants() {
        return Err(format!("SmallSet invariant: {}", e));
    }
    let it: Vec<u32> = set.iter().map(|k| k.id).collect();
    let want: Vec<u32> = model.iter().map(|k| k.id).collect();
    ensure!(it == want, "SmallSet iter {:?} != {:?}", it, want);
    let ith: Vec<u32> = set.iter_hashed().map(|k| k.key().id).collect();
    ensure!(ith == want, "SmallSet iter_hashed");
    ensure!(set.first().map(|k| k.id) == want.first().copied(), "SmallSet first");
    ensure!(set.last().map(|k| k.id) == want.last().copied(), "SmallSet last");
    for i in 0..model.len() + 2 {
        ensure!(set.get_index(i).map(|k| k.id) == want.get(i).copied(), "SmallSet get_index({})", i);
    }
    for k in uni {
        let pos = model.iter().position(|m| m.id == k.id);
        ensure!(set.contains(k) == pos.is_some(), "SmallSet contains({})", k.id);
        ensure!(set.contains_hashed(Hashed::new(*k).as_ref()) == pos.is_some(), "SmallSet contains_hashed({})", k.id);
        ensure!(set.get(k).map(|x| x.id) == pos.map(|_| k.id), "SmallSet get({})", k.id);
        ensure!(set.get_hashed(Hashed::new(*k).as_ref()).map(|x| x.id) == pos.map(|_| k.id), "SmallSet get_hashed");
        ensure!(set.get_index_of(k) == pos, "SmallSet get_index_of({})", k.id);
        ensure!(set.get_index_of_hashed(Hashed::new(*k).as_ref()) == pos, "SmallSet get_index_of_hashed");
        ensure!(set.get_index_of_hashed_by_value(Hashed::new(*k)) == pos, "SmallSet get_index_of_hashed_by_value");
    }
    let fresh: SmallSet<K> = model.iter().copied().collect();
    ensure!(*set == fresh, "SmallSet != fresh equal set");
    ensure!(set.eq_ordered(&fresh), "SmallSet !eq_ordered fresh");
    let mut h1 = DefaultHasher::new();
    let mut h2 = DefaultHasher::new();
    set.hash_ordered(&mut h1);
    fresh.hash_ordered(&mut h2);
    ensure!(h1.finish() == h2.finish(), "SmallSet hash_ordered");
    Ok(())
}

fn small_set_script(rng: &mut Rng, len: usize, stats: &mut Stats) -> R {
    let uni = keys(10 + rng.below(50), rng);
    let mut set: SmallSet<K> = SmallSet::new();
    let mut model: Vec<K> = Vec::new();
    let mut grow = true;
    for _ in 0..len {
        if model.len() > stats.threshold + 4 {
            grow = false;
        }
        if model.len() < 3 {
            grow = true;
        }
        let k = uni[rng.below(uni.len())];
        let pos = model.iter().position(|m| m.id == k.id);
        let r = rng.below(100);
        let op;
        if r < if grow { 65 } else { 25 } {
            match rng.below(6) {
                0 => {
                    op = "insert";
                    ensure!(set.insert(k) == pos.is_none(), "SmallSet insert returned wrong bool");
                    if pos.is_none() {
                        model.push(k);
                    }
                }
                1 => {
                    op = "insert_hashed";
                    ensure!(set.insert_hashed(Hashed::new(k)) == pos.is_none(), "SmallSet insert_hashed bool");
                    if pos.is_none() {
                        model.push(k);
                    }
                }
                2 => {
                    op = "insert_unique_unchecked";
                    if pos.is_none() {
                        set.insert_unique_unchecked(k);
                        model.push(k);
                    }
                }
                3 => {
                    op = "insert_hashed_unique_unchecked";
                    if pos.is_none() {
                        set.insert_hashed_unique_unchecked(Hashed::new(k));
                        model.push(k);
                    }
                }
                4 => {
                    op = "get_or_insert";
                    ensure!(set.get_or_insert(k).id == k.id, "get_or_insert");
                    if pos.is_none() {
                        model.push(k);
                    }
                }
                _ => {
                    op = "extend";
                    let more: Vec<K> = (0..rng.below(4)).map(|_| uni[rng.below(uni.len())]).collect();
                    set.extend(more.iter().copied());
                    for m in more {
                        if !model.iter().any(|x| x.id == m.id) {
                            model.push(m);
                        }
                    }
                }
            }
        } else if r < 85 {
            let idx = if !model.is_empty() && rng.chance(8, 10) { rng.below(model.len()) } else { model.len() + rng.below(2) };
            match rng.below(6) {
                0 => {
                    op = "shift_remove";
                    ensure!(set.shift_remove(&k) == pos.is_some(), "SmallSet shift_remove bool");
                    if let Some(p) = pos {
                        model.remove(p);
                    }
                }
                1 => {
                    op = "shift_remove_hashed";
                    ensure!(set.shift_remove_hashed(Hashed::new(k).as_ref()) == pos.is_some(), "shift_remove_hashed bool");
                    if let Some(p) = pos {
                        model.remove(p);
                    }
                }
                2 => {
                    op = "take";
                    ensure!(set.take(&k).map(|x| x.id) == pos.map(|_| k.id), "SmallSet take");
                    if let Some(p) = pos {
                        model.remove(p);
                    }
                }
                3 => {
                    op = "shift_remove_index";
                    let want = if idx < model.len() { Some(model.remove(idx).id) } else { None };
                    ensure!(set.shift_remove_index(idx).map(|x| x.id) == want, "SmallSet shift_remove_index");
                }
                4 => {
                    op = "shift_remove_index_hashed";
                    let want = if idx < model.len() { Some(model.remove(idx).id) } else { None };
                    ensure!(set.shift_remove_index_hashed(idx).map(|x| x.key().id) == want, "SmallSet shift_remove_index_hashed");
                }
                _ => {
                    op = "pop";
                    ensure!(set.pop().map(|x| x.id) == model.pop().map(|x| x.id), "SmallSet pop");
                }
            }
        } else {
            match rng.below(7) {
                0 => {
                    op = "sort";
                    set.sort();
                    model.sort_by_key(|k| k.id);
                }
                1 => {
                    op = "reverse";
                    set.reverse();
                    model.reverse();
                }
                2 => {
                    op = "retain";
                    let mask = rng.next() | rng.next();
                    set.retain(|k| (mask >> (k.id % 64)) & 1 == 1);
                    model.retain(|k| (mask >> (k.id % 64)) & 1 == 1);
                }
                3 => {
                    op = "union/difference";
                    let other: SmallSet<K> = (0..rng.below(8)).map(|_| uni[rng.below(uni.len())]).collect();
                    let u: Vec<u32> = set.union(&other).map(|k| k.id).collect();
                    let mut wu: Vec<u32> = model.iter().map(|k| k.id).collect();
                    for o in other.iter() {
                        if !wu.contains(&o.id) {
                            wu.push(o.id);
                        }
                    }
                    ensure!(u == wu, "SmallSet union {:?} != {:?}", u, wu);
                    let d: Vec<u32> = set.difference(&other).map(|k| k.id).collect();
                    let wd: Vec<u32> = model.iter().filter(|k| !other.contains(*k)).map(|k| k.id).collect();
                    ensure!(d == wd, "SmallSet difference");
                }
                4 => {
                    op = "clone";
                    set = set.clone();
                }
                5 => {
                    op = "into_iter collect";
                    set = std::mem::take(&mut set).into_iter().collect();
                }
                _ => {
                    op = "clear?";
                    if rng.chance(1, 5) {
                        set.clear();
                        model.clear();
                    } else {
                        set.reserve(rng.below(30));
                    }
                }
            }
        }
        stats.steps += 1;
        stats.checks += 1;
        check_set(&set, &model, &uni).map_err(|e| format!("after {}: {}", op, e))?;
        stats.max_len = stats.max_len.max(model.len());
    }
    Ok(())
}

// ---------------------------------------------------------------------------------------------

fn ordered_script(rng: &mut Rng, len: usize, stats: &mut Stats) -> R {
    let uni = keys(8 + rng.below(40), rng);
    let mut map: OrderedMap<K, V> = OrderedMap::new();
    let mut set: OrderedSet<K> = OrderedSet::new();
    let mut mm: Vec<(K, V)> = Vec::new();
    let mut ms: Vec<K> = Vec::new();
    let mut val = 0;
    for _ in 0..len {
        let k = uni[rng.below(uni.len())];
        val += 1;
        match rng.below(12) {
            0..=3 => {
                let p = mm.iter().position(|(m, _)| m.id == k.id);
                let want = match p {
                    Some(p) => Some(std::mem::replace(&mut mm[p].1, val)),
                    None => {
                        mm.push((k, val));
                        None
                    }
                };
                ensure!(map.insert(k, val) == want, "OrderedMap insert");
                let had = ms.iter().any(|m| m.id == k.id);
                ensure!(set.insert(k) == !had, "OrderedSet insert");
                if !had {
                    ms.push(k);
                }
            }
            4..=5 => {
                let p = mm.iter().position(|(m, _)| m.id == k.id);
                ensure!(map.remove(&k) == p.map(|p| mm.remove(p).1), "OrderedMap remove");
                let p = ms.iter().position(|m| m.id == k.id);
                ensure!(set.take(&k).map(|x| x.id) == p.map(|p| ms.remove(p).id), "OrderedSet take");
            }
            6 => {
                map.sort_keys();
                mm.sort_by_key(|(k, _)| k.id);
                set.sort();
                ms.sort_by_key(|k| k.id);
            }
            7 => {
                set.reverse();
                ms.reverse();
            }
            8 => {
                let e = *map.entry(k).or_insert(val);
                let p = mm.iter().position(|(m, _)| m.id == k.id);
                match p {
                    Some(p) => ensure!(e == mm[p].1, "OrderedMap entry"),
                    None => mm.push((k, val)),
                }
            }
            9 => {
                let had = ms.iter().any(|m| m.id == k.id);
                let r = set.try_insert(k);
                ensure!(r.is_ok() == !had, "OrderedSet try_insert");
                if !had {
                    ms.push(k);
                }
            }
            10 => {
                if !ms.iter().any(|m| m.id == k.id) {
                    set.insert_unique_unchecked(k);
                    ms.push(k);
                }
                if let Some(v) = map.get_mut(&k) {
                    *v += 1;
                    let p = mm.iter().position(|(m, _)| m.id == k.id).unwrap();
                    mm[p].1 += 1;
                }
            }
            _ => {
                if rng.chance(1, 6) {
                    map.clear();
                    mm.clear();
                    set.clear();
                    ms.clear();
                } else {
                    let more: Vec<(K, V)> = (0..rng.below(3)).map(|i| (uni[rng.below(uni.len())], val * 100 + i as u32)).collect();
                    map.extend(more.iter().copied());
                    set.extend(more.iter().map(|(k, _)| *k));
                    for (k, v) in more {
                        match mm.iter().position(|(m, _)| m.id == k.id) {
                            Some(p) => mm[p].1 = v,
                            None => mm.push((k, v)),
                        }
                        if !ms.iter().any(|m| m.id == k.id) {
                            ms.push(k);
                        }
                    }
                }
            }
        }
        stats.steps += 1;
        stats.checks += 1;
        // map observations
        ensure!(map.len() == mm.len() && map.is_empty() == mm.is_empty(), "OrderedMap len");
        let it: Vec<(u32, V)> = map.iter().map(|(k, v)| (k.id, *v)).collect();
        let want: Vec<(u32, V)> = mm.iter().map(|(k, v)| (k.id, *v)).collect();
        ensure!(it == want, "OrderedMap iter {:?} != {:?}", it, want);
        ensure!(map.keys().map(|k| k.id).eq(want.iter().map(|x| x.0)), "OrderedMap keys");
        ensure!(map.values().copied().eq(want.iter().map(|x| x.1)), "OrderedMap values");
        ensure!(map.iter_hashed().map(|(k, v)| (k.key().id, *v)).eq(want.iter().copied()), "OrderedMap iter_hashed");
        for i in 0..mm.len() + 1 {
            ensure!(map.get_index(i).map(|(k, v)| (k.id, *v)) == want.get(i).copied(), "OrderedMap get_index");
        }
        for k in &uni {
            let p = mm.iter().position(|(m, _)| m.id == k.id);
            ensure!(map.get(k).copied() == p.map(|p| mm[p].1), "OrderedMap get");
            ensure!(map.contains_key(k) == p.is_some(), "OrderedMap contains_key");
            ensure!(map.get_index_of(k) == p, "OrderedMap get_index_of");
            let p = ms.iter().position(|m| m.id == k.id);
            ensure!(set.contains(k) == p.is_some(), "OrderedSet contains");
            ensure!(set.get(k).map(|x| x.id) == p.map(|_| k.id), "OrderedSet get");
            ensure!(set.get_index_of(k) == p, "OrderedSet get_index_of");
        }
        ensure!(set.len() == ms.len() && set.is_empty() == ms.is_empty(), "OrderedSet len");
        ensure!(set.iter().map(|k| k.id).eq(ms.iter().map(|k| k.id)), "OrderedSet iter");
        ensure!(set.first().map(|k| k.id) == ms.first().map(|k| k.id), "OrderedSet first");
        ensure!(set.last().map(|k| k.id) == ms.last().map(|k| k.id), "OrderedSet last");
        for i in 0..ms.len() + 1 {
            ensure!(set.get_index(i).map(|k| k.id) == ms.get(i).map(|k| k.id), "OrderedSet get_index");
        }
        // order-sensitive Eq / Hash / Ord
        let fresh: OrderedMap<K, V> = mm.iter().copied().collect();
        ensure!(map == fresh && hash_of(&map) == hash_of(&fresh), "OrderedMap Eq/Hash vs fresh equal map");
        ensure!(map.cmp(&fresh) == std::cmp::Ordering::Equal, "OrderedMap Ord vs fresh");
        let fresh_s: OrderedSet<K> = ms.iter().copied().collect();
        ensure!(set == fresh_s && hash_of(&set) == hash_of(&fresh_s), "OrderedSet Eq/Hash vs fresh");
        if mm.len() >= 2 {
            let mut sw = mm.clone();
            sw.swap(0, 1);
            let swapped: OrderedMap<K, V> = sw.into_iter().collect();
            ensure!(map != swapped, "OrderedMap Eq must be order-sensitive");
        }
        if ms.len() >= 2 {
            let mut sw = ms.clone();
            sw.swap(0, 1);
            let swapped: OrderedSet<K> = sw.into_iter().collect();
            ensure!(set != swapped, "OrderedSet Eq must be order-sensitive");
        }
        // sorted variants built from the current content
        let sm: SortedMap<K, V> = mm.iter().rev().copied().collect();
        let mut sorted = want.clone();
        sorted.sort();
        ensure!(sm.iter().map(|(k, v)| (k.id, *v)).eq(sorted.iter().copied()), "SortedMap iter not sorted/complete");
        ensure!(sm.len() == sorted.len() && sm.is_empty() == sorted.is_empty(), "SortedMap len");
        ensure!(sm.keys().map(|k| k.id).eq(sorted.iter().map(|x| x.0)), "SortedMap keys");
        ensure!(sm.values().copied().eq(sorted.iter().map(|x| x.1)), "SortedMap values");
        let sm2: SortedMap<K, V> = SortedMap::from(map.clone());
        ensure!(sm == sm2 && hash_of(&sm) == hash_of(&sm2), "SortedMap from OrderedMap != from_iter");
        let sm3: SortedMap<K, V> = SortedMap::from(mm.iter().copied().collect::<SmallMap<K, V>>());
        ensure!(sm == sm3, "SortedMap from SmallMap != from_iter");
        for k in &uni {
            let p = mm.iter().position(|(m, _)| m.id == k.id);
            ensure!(sm.get(k).copied() == p.map(|p| mm[p].1), "SortedMap get");
            ensure!(sm.contains_key(k) == p.is_some(), "SortedMap contains_key");
        }
        ensure!(sm.clone().into_iter().map(|(k, v)| (k.id, v)).eq(sorted.iter().copied()), "SortedMap into_iter");
        let ss: SortedSet<K> = ms.iter().rev().copied().collect();
        let mut sids: Vec<u32> = ms.iter().map(|k| k.id).collect();
        sids.sort();
        ensure!(ss.iter().map(|k| k.id).eq(sids.iter().copied()), "SortedSet iter");
        ensure!(ss.len() == sids.len(), "SortedSet len");
        for i in 0..sids.len() + 1 {
            ensure!(ss.get_index(i).map(|k| k.id) == sids.get(i).copied(), "SortedSet get_index");
        }
        for k in &uni {
            ensure!(ss.contains(k) == sids.contains(&k.id), "SortedSet contains");
            ensure!(ss.get(k).map(|x| x.id) == if sids.contains(&k.id) { Some(k.id) } else { None }, "SortedSet get");
        }
        ensure!(SortedSet::from(set.clone()) == ss, "SortedSet from OrderedSet");
        ensure!(SortedSet::from(ms.iter().copied().collect::<SmallSet<K>>()) == ss, "SortedSet from SmallSet");
        let sv: SortedVec<K> = ms.iter().rev().copied().collect();
        ensure!(sv.iter().map(|k| k.id).eq(sids.iter().copied()), "SortedVec iter");
        ensure!(SortedSet::from(sv.clone()) == ss, "SortedSet from SortedVec");
        let sv2 = SortedVec::from(ms.clone());
        ensure!(sv2.into_iter().map(|k| k.id).eq(sids.iter().copied()), "SortedVec from Vec");
        stats.max_len = stats.max_len.max(mm.len());
    }
    Ok(())
}

// ---------------------------------------------------------------------------------------------

fn unordered_script(rng: &mut Rng, len: usize, stats: &mut Stats) -> R {
    let uni = keys(8 + rng.below(60), rng);
    let mut map: UnorderedMap<K, V> = UnorderedMap::new();
    let mut set: UnorderedSet<K> = UnorderedSet::new();
    let mut mm: HashMap<u32, V> = HashMap::new();
    let mut val = 0;
    for _ in 0..len {
        let k = uni[rng.below(uni.len())];
        val += 1;
        match rng.below(12) {
            0..=3 => {
                ensure!(map.insert(k, val) == mm.insert(k.id, val), "UnorderedMap insert");
                set.insert(k);
            }
            4..=5 => {
                ensure!(map.remove(&k) == mm.remove(&k.id), "UnorderedMap remove");
                let e = set.raw_entry_mut().from_entry(&k);
                if let starlark_map::unordered_set::RawEntryMut::Occupied(o) = e {
                    o.remove();
                }
            }
            6 => {
                let mask = rng.next() | rng.next();
                map.retain(|k, _| (mask >> (k.id % 64)) & 1 == 1);
                mm.retain(|k, _| (mask >> (k % 64)) & 1 == 1);
                let keep: Vec<K> = uni.iter().copied().filter(|k| mm.contains_key(&k.id)).collect();
                set = keep.into_iter().collect();
            }
            7 => match map.entry(k) {
                starlark_map::unordered_map::Entry::Occupied(mut o) => {
                    ensure!(Some(o.get()) == mm.get(&k.id), "UnorderedMap occupied get");
                    ensure!(Some(o.insert(val)) == mm.insert(k.id, val), "UnorderedMap occupied insert");
                }
                starlark_map::unordered_map::Entry::Vacant(v) => {
                    ensure!(!mm.contains_key(&k.id), "UnorderedMap vacant but model has key");
                    v.insert(val);
                    mm.insert(k.id, val);
                    set.insert(k);
                }
            },
            8 => match map.raw_entry_mut().from_key_hashed(Hashed::new(k).as_ref()) {
                starlark_map::unordered_map::RawEntryMut::Occupied(o) => {
                    ensure!(mm.contains_key(&k.id), "raw occupied but absent");
                    if rng.chance(1, 2) {
                        let (rk, rv) = o.remove_entry();
                        ensure!(rk.id == k.id && Some(rv) == mm.remove(&k.id), "raw remove_entry");
                        if let starlark_map::unordered_set::RawEntryMut::Occupied(o) = set.raw_entry_mut().from_entry_hashed(Hashed::new(k).as_ref()) {
                            ensure!(o.remove().id == k.id, "UnorderedSet raw remove");
                        }
                    }
                }
                starlark_map::unordered_map::RawEntryMut::Vacant(v) => {
                    ensure!(!mm.contains_key(&k.id), "raw vacant but present");
                    v.insert_hashed(Hashed::new(k), val);
                    mm.insert(k.id, val);
                    if let starlark_map::unordered_set::RawEntryMut::Vacant(v) = set.raw_entry_mut().from_entry(&k) {
                        v.insert_hashed(Hashed::new(k));
                    }
                }
            },
            9 => {
                if let Some(v) = map.get_mut(&k) {
                    *v += 1;
                    *mm.get_mut(&k.id).unwrap() += 1;
                }
            }
            10 => {
                for v in map.values_unordered_mut() {
                    *v += 2;
                }
                for v in mm.values_mut() {
                    *v += 2;
                }
            }
            _ => {
                if rng.chance(1, 8) {
                    map.clear();
                    set.clear();
                    mm.clear();
                } else {
                    map = map.map_values(|v| v + 1);
                    for v in mm.values_mut() {
                        *v += 1;
                    }
                }
            }
        }
        stats.steps += 1;
        stats.checks += 1;
        ensure!(map.len() == mm.len() && map.is_empty() == mm.is_empty(), "UnorderedMap len {} != {}", map.len(), mm.len());
        ensure!(set.len() == mm.len() && set.is_empty() == mm.is_empty(), "UnorderedSet len {} != {}", set.len(), mm.len());
        for k in &uni {
            ensure!(map.get(k) == mm.get(&k.id), "UnorderedMap get");
            ensure!(map.get_hashed(Hashed::new(*k).as_ref()) == mm.get(&k.id), "UnorderedMap get_hashed");
            ensure!(map.contains_key(k) == mm.contains_key(&k.id), "UnorderedMap contains_key");
            ensure!(map.contains_key_hashed(Hashed::new(*k).as_ref()) == mm.contains_key(&k.id), "UnorderedMap contains_key_hashed");
            ensure!(set.contains(k) == mm.contains_key(&k.id), "UnorderedSet contains({})", k.id);
            ensure!(set.contains_hashed(Hashed::new(*k).as_ref()) == mm.contains_key(&k.id), "UnorderedSet contains_hashed");
        }
        let mut want: Vec<(u32, V)> = mm.iter().map(|(k, v)| (*k, *v)).collect();
        want.sort();
        let got: Vec<(u32, V)> = map.entries_sorted().into_iter().map(|(k, v)| (k.id, *v)).collect();
        ensure!(got == want, "UnorderedMap entries_sorted");
        let mut un: Vec<(u32, V)> = map.entries_unordered().map(|(k, v)| (k.id, *v)).collect();
        un.sort();
        ensure!(un == want, "UnorderedMap entries_unordered");
        ensure!(map.keys_unordered().len() == want.len() && map.values_unordered().len() == want.len(), "unordered iter len");
        let gs: Vec<u32> = set.entries_sorted().into_iter().map(|k| k.id).collect();
        ensure!(gs.iter().copied().eq(want.iter().map(|x| x.0)), "UnorderedSet entries_sorted");
        // Eq / Hash independent of insertion order
        let mut rev: Vec<(K, V)> = uni.iter().filter_map(|k| mm.get(&k.id).map(|v| (*k, *v))).collect();
        rev.reverse();
        let fresh: UnorderedMap<K, V> = rev.iter().copied().collect();
        ensure!(map == fresh, "UnorderedMap != equal map built in another order");
        ensure!(hash_of(&map) == hash_of(&fresh), "UnorderedMap Hash depends on order");
        let fresh_s: UnorderedSet<K> = rev.iter().map(|(k, _)| *k).collect();
        ensure!(set == fresh_s, "UnorderedSet != equal set built in another order");
        let hm = map_clone(&map).into_hash_map();
        ensure!(hm.len() == mm.len() && hm.iter().all(|(k, v)| mm.get(&k.id) == Some(v)), "into_hash_map");
        stats.max_len = stats.max_len.max(mm.len());
    }
    Ok(())
}

fn map_clone(m: &UnorderedMap<K, V>) -> UnorderedMap<K, V> {
    m.entries_unordered().map(|(k, v)| (*k, *v)).collect()
}

// ---------------------------------------------------------------------------------------------

/// Values with a drop counter so that double drops / leaks in Vec2 are observable.
struct D(u32, std::rc::Rc<std::cell::Cell<i64>>);
impl Drop for D {
    fn drop(&mut self) {
        self.1.set(self.1.get() - 1);
    }
}

fn vec2_script(rng: &mut Rng, len: usize, stats: &mut Stats) -> R {
    let live = std::rc::Rc::new(std::cell::Cell::new(0i64));
    let mk = |x: u32| {
        live.set(live.get() + 1);
        D(x, live.clone())
    };
    {
        let mut v: Vec2<D, (u8, D)> = if rng.chance(1, 2) { Vec2::new() } else { Vec2::with_capacity(rng.below(10)) };
        let mut ma: Vec<u32> = Vec::new();
        let mut mb: Vec<(u8, u32)> = Vec::new();
        let mut n = 0u32;
        for _ in 0..len {
            n += 1;
            let op;
            match rng.below(16) {
                0..=4 => {
                    op = "push";
                    v.push(mk(n), (n as u8, mk(n + 500_000)));
                    ma.push(n);
                    mb.push((n as u8, n + 500_000));
                }
                5 => {
                    op = "pop";
                    let got = v.pop().map(|(a, b)| (a.0, (b.0, b.1.0)));
                    let want = ma.pop().map(|a| (a, mb.pop().unwrap()));
                    ensure!(got == want, "Vec2 pop");
                }
                6 => {
                    op = "remove";
                    if !ma.is_empty() {
                        let i = rng.below(ma.len());
                        let (a, b) = v.remove(i);
                        ensure!(a.0 == ma.remove(i) && (b.0, b.1.0) == mb.remove(i), "Vec2 remove");
                    }
                }
                7 => {
                    op = "truncate";
                    let l = rng.below(ma.len() + 3);
                    v.truncate(l);
                    ma.truncate(l);
                    mb.truncate(l);
                }
                8 => {
                    op = "retain";
                    let mask = rng.next() | rng.next();
                    v.retain(|a, _| (mask >> (a.0 % 64)) & 1 == 1);
                    let keep: Vec<bool> = ma.iter().map(|a| (mask >> (a % 64)) & 1 == 1).collect();
                    let mut it = keep.iter();
                    ma.retain(|_| *it.next().unwrap());
                    let mut it = keep.iter();
                    mb.retain(|_| *it.next().unwrap());
                }
                9 => {
                    op = "retain(panic)";
                    let at = rng.below(ma.len() + 1);
                    let mut seen = 0;
                    let before: Vec<u32> = ma.clone();
                    let r = panic::catch_unwind(panic::AssertUnwindSafe(|| {
                        v.retain(|a, _| {
                            if seen == at {
                                panic!("svmap: injected panic in Vec2::retain");
                            }
                            seen += 1;
                            a.0 % 2 == 0
                        })
                    }));
                    if r.is_ok() {
                        let keep: Vec<bool> = ma.iter().map(|a| a % 2 == 0).collect();
                        let mut it = keep.iter();
                        ma.retain(|_| *it.next().unwrap());
                        let mut it = keep.iter();
                        mb.retain(|_| *it.next().unwrap());
                    } else {
                        stats.panics_injected += 1;
                        // resync: survivors must be a subsequence of the previous content with matching pairs
                        let now: Vec<(u32, (u8, u32))> = v.iter().map(|(a, b)| (a.0, (b.0, b.1.0))).collect();
                        let mut bi = 0;
                        for (a, b) in &now {
                            let mut found = false;
                            while bi < before.len() {
                                let i = bi;
                                bi += 1;
                                if before[i] == *a && mb[i] == *b {
                                    found = true;
                                    break;
                                }
                            }
                            ensure!(found, "Vec2 after panicking retain: element invented/duplicated/mismatched");
                        }
                        ma = now.iter().map(|x| x.0).collect();
                        mb = now.iter().map(|x| x.1).collect();
                    }
                }
                10 => {
                    op = "sort_by";
                    // sort by a derived key with ties, must be stable w.r.t. nothing in particular: compare as multiset + sortedness
                    v.sort_by(|x, y| (x.0.0 % 7).cmp(&(y.0.0 % 7)));
                    let got: Vec<(u32, (u8, u32))> = v.iter().map(|(a, b)| (a.0, (b.0, b.1.0))).collect();
                    ensure!(got.windows(2).all(|w| w[0].0 % 7 <= w[1].0 % 7), "Vec2 sort_by result not sorted");
                    let mut g2 = got.clone();
                    g2.sort();
                    let mut want: Vec<(u32, (u8, u32))> = ma.iter().copied().zip(mb.iter().copied()).collect();
                    want.sort();
                    ensure!(g2 == want, "Vec2 sort_by result is not a permutation");
                    ma = got.iter().map(|x| x.0).collect();
                    mb = got.iter().map(|x| x.1).collect();
                }
                11 => {
                    op = "clear/shrink/reserve";
                    match rng.below(4) {
                        0 => {
                            v.clear();
                            ma.clear();
                            mb.clear();
                        }
                        1 => v.shrink_to_fit(),
                        _ => {
                            let add = rng.below(40);
                            v.reserve(add);
                            ensure!(v.capacity() >= ma.len() + add, "Vec2 reserve capacity");
                        }
                    }
                }
                12 => {
                    op = "into_iter(partial)";
                    let old = std::mem::take(&mut v);
                    let mut it = old.into_iter();
                    let take_front = rng.below(ma.len() + 1);
                    let mut kept_a = Vec::new();
                    for _ in 0..take_front {
                        if let Some((a, b)) = it.next() {
                            kept_a.push((a, b));
                        }
                    }
                    if rng.chance(1, 2) {
                        if let Some(x) = it.next_back() {
                            drop(x);
                        }
                    }
                    ensure!(it.len() <= ma.len(), "IntoIter len");
                    drop(it); // rest dropped by the iterator
                    for (i, (a, b)) in kept_a.iter().enumerate() {
                        ensure!(a.0 == ma[i] && (b.0, b.1.0) == mb[i], "Vec2 into_iter order");
                    }
                    ma.truncate(kept_a.len());
                    mb.truncate(kept_a.len());
                    for (a, b) in kept_a {
                        v.push(a, b);
                    }
                }
                13 => {
                    op = "extend/from_iter";
                    let more: Vec<u32> = (0..rng.below(5)).map(|i| n * 10 + i as u32).collect();
                    if rng.chance(1, 2) {
                        v.extend(more.iter().map(|x| (mk(*x), (*x as u8, mk(*x + 1)))));
                    } else {
                        let old = std::mem::take(&mut v);
                        v = old.into_iter().chain(more.iter().map(|x| (mk(*x), (*x as u8, mk(*x + 1))))).collect();
                    }
                    for x in more {
                        ma.push(x);
                        mb.push((x as u8, x + 1));
                    }
                }
                14 => {
                    op = "get_mut";
                    if !ma.is_empty() {
                        let i = rng.below(ma.len());
                        if let Some((a, b)) = v.get_mut(i) {
                            a.0 += 1_000_000;
                            b.0 = b.0.wrapping_add(1);
                        }
                        ma[i] += 1_000_000;
                        mb[i].0 = mb[i].0.wrapping_add(1);
                    }
                }
                _ => {
                    op = "iter rev";
                    let got: Vec<u32> = v.iter().rev().map(|(a, _)| a.0).collect();
                    ensure!(got.iter().copied().eq(ma.iter().rev().copied()), "Vec2 iter().rev()");
                }
            }
            stats.steps += 1;
            stats.checks += 1;
            ensure!(v.len() == ma.len() && v.is_empty() == ma.is_empty(), "Vec2 len after {}", op);
            ensure!(v.capacity() >= v.len(), "Vec2 capacity < len after {}", op);
            let got: Vec<(u32, (u8, u32))> = v.iter().map(|(a, b)| (a.0, (b.0, b.1.0))).collect();
            let want: Vec<(u32, (u8, u32))> = ma.iter().copied().zip(mb.iter().copied()).collect();
            ensure!(got == want, "Vec2 iter after {}: {:?} != {:?}", op, got.len(), want.len());
            ensure!(v.iter().len() == ma.len(), "Vec2 iter len");
            for i in 0..ma.len() + 1 {
                ensure!(v.get(i).map(|(a, b)| (a.0, b.0)) == ma.get(i).map(|a| (*a, mb[i].0)), "Vec2 get({}) after {}", i, op);
            }
            ensure!(v.first().map(|(a, _)| a.0) == ma.first().copied(), "Vec2 first");
            ensure!(v.last().map(|(a, _)| a.0) == ma.last().copied(), "Vec2 last");
            ensure!(live.get() == 2 * ma.len() as i64, "Vec2 after {}: {} live payloads but {} elements (leak or double drop)", op, live.get(), ma.len());
            stats.max_len = stats.max_len.max(ma.len());
        }
    }
    ensure!(live.get() == 0, "Vec2 drop: {} payloads leaked or double-dropped", live.get());
    // Eq / Hash / Clone on plain data
    let a: Vec2<u32, u64> = (0..rng.below(30) as u32).map(|i| (i, i as u64 * 3)).collect();
    let b = a.clone();
    ensure!(a == b && hash_of(&a) == hash_of(&b), "Vec2 clone Eq/Hash");
    Ok(())
}

pub fn run_other(seed: u64, nscripts: usize, len: usize, stats: &mut Stats) -> bool {
    let mut rng = Rng::new(seed ^ 0xABCDEF);
    for i in 0..nscripts {
        stats.scripts += 1;
        let which = i % 4;
        let mut r2 = Rng::new(rng.next());
        let seed_here = r2.clone();
        let res = panic::catch_unwind(panic::AssertUnwindSafe(|| match which {
            0 => small_set_script(&mut r2, len, stats),
            1 => ordered_script(&mut r2, len, stats),
            2 => unordered_script(&mut r2, len, stats),
            _ => vec2_script(&mut r2, len, stats),
        }));
        let name = ["SmallSet", "Ordered/Sorted", "Unordered", "Vec2"][which];
        let _ = seed_here;
        match res {
            Ok(Ok(())) => {}
            Ok(Err(m)) => {
                println!(
                    "{{\"violation\":\"{}\",\"container\":\"{}\",\"script_index\":{},\"seed\":{},\"len\":{}}}",
                    m.replace('"', "'"),
                    name,
                    i,
                    seed,
                    len
                );
                return false;
            }
            Err(_) => {
                println!(
                    "{{\"violation\":\"panic in container code\",\"container\":\"{}\",\"script_index\":{},\"seed\":{},\"len\":{}}}",
                    name, i, seed, len
                );
                return false;
            }
        }
    }
    true
}
