#!/usr/bin/env python3
"""Apply a seeded change to /repo, run the given checks (quick tier), undo the change.
usage: tools/try_seed.py <patch.diff> <ID> [<ID>...] [--seed N] [--tier quick|thorough]
Prints, per check, exit code + VIOLATION/KNOWN lines. /repo is always restored (git checkout -- .)."""
import os
import subprocess
import sys

args = sys.argv[1:]
patch = os.path.abspath(args[0])
ids = [a for a in args[1:] if not a.startswith("--") and a[0] == "C"]
seed = args[args.index("--seed") + 1] if "--seed" in args else "1"
tier = args[args.index("--tier") + 1] if "--tier" in args else "quick"
assert subprocess.run(["git", "-C", "/repo", "status", "--porcelain"], stdout=subprocess.PIPE, text=True).stdout.strip() == "", "/repo not clean"
import shutil, tempfile
_evbak = tempfile.mkdtemp(prefix="evbak_", dir="/verif/work")
shutil.copytree("/verif/evidence", _evbak + "/evidence")  # evidence written while a seeded change is applied is not evidence
r = subprocess.run(["git", "-C", "/repo", "apply", patch])
if r.returncode != 0:
    print("patch does not apply")
    sys.exit(2)
try:
    for i in ids:
        env = dict(os.environ, VERIF_SEED=seed)
        p = subprocess.run(["./check", i, "--tier", tier], cwd="/verif", env=env, stdout=subprocess.PIPE, stderr=subprocess.PIPE, text=True)
        lines = [l for l in p.stdout.splitlines() if l.startswith(("VIOLATION", "KNOWN"))]
        err = [l for l in p.stderr.splitlines() if l.strip().startswith(("[", "SANITY", "harness", "build of"))][-3:]
        print("== %s exit=%d" % (i, p.returncode))
        for l in lines[:6]:
            print("   ", l[:200])
        detail = [l for l in p.stderr.splitlines() if l.startswith("    ")][:4]
        for l in detail:
            print("   ", l[:300])
        for l in err:
            print("   ", l[:200])
finally:
    shutil.rmtree("/verif/evidence"); shutil.copytree(_evbak + "/evidence", "/verif/evidence"); shutil.rmtree(_evbak)
    subprocess.run(["git", "-C", "/repo", "checkout", "--", "."])
    subprocess.run(["git", "-C", "/repo", "clean", "-fdq", "--", "starlark/tests", "starlark_map/tests", "starlark_syntax/tests", "starlark_lsp/tests"])
