#!/usr/bin/env python3
"""Rewrite section 10 of DESIGN.md from seeded/*/meta.json."""
import glob
import json
import os

V = os.path.dirname(os.path.dirname(os.path.abspath(__file__)))
rows = []
for f in sorted(glob.glob(os.path.join(V, "seeded", "*", "meta.json"))):
    m = json.load(open(f))
    rows.append("| %s | %s | %s | %s | %s | %s |" % (m["id"], m["property"], m["change"].replace("|", "\\|"), m["needs_to_manifest"].replace("|", "\\|"),
                                            ", ".join(m["caught_by"]) or "–", m["result"].replace("|", "\\|")))
head = """## 10. Seeded-change results

Each change was written by an independent sub-agent that saw only the property text and a scratch worktree; I
re-confirmed every one in my own scratch worktree (`tools/confirm_seed.py`: patch applies, the pinned 1308 tests pass
with it, the demonstration fails with it and passes without it) before running the checks against it
(`tools/try_seed.py`: `git -C /repo apply`, `./check <id> --tier quick`, `git -C /repo checkout -- .`; the evidence
directory is saved and restored around the run). "missed" below always means *missed by the quick tier at seed 1 as
the check stood at that time*; every miss led to a strengthening of the check (section 3), after which the change is
caught by the quick tier. Kept changes: `/verif/seeded/<id>/` (patch.diff, demo_test.rs, NOTES.md, meta.json).

| id | property | change | needs | caught by (quick) | history |
|----|----------|--------|-------|-------------------|---------|
"""
tail = """

Rejected (not kept): **C12a** — `sorted(x, key=f)` rewritten to collect the elements before calling `f`, so that
`f` may mutate `x`. The container is no longer being iterated when the callback runs, the result of `sorted` is
unchanged, and CPython's `sorted` behaves the same way; the property as stated ("while … being iterated") is not
violated, and C12's oracle deliberately accepts a successful mutation inside a callback of a consuming builtin
(section 3 C12). A check that flagged it would raise an alarm on code where the property holds.
"""
p = os.path.join(V, "DESIGN.md")
s = open(p).read()
i = s.index("## 10. Seeded-change results")
s = s[:i] + head + "\n".join(rows) + tail
open(p, "w").write(s)
print(len(rows), "rows")
