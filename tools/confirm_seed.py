#!/usr/bin/env python3
"""Confirm a seeded change independently in the scratch worktree /tmp/seed/confirm (created on demand, removed with --done):
  1. patch applies to a clean checkout of /repo's HEAD; workspace builds
  2. pinned test suite passes with the change (count reported)
  3. demonstration fails with the change
  4. demonstration passes without it
usage: tools/confirm_seed.py <dir-with patch.diff+demo_test.rs> <dest path of demo in tree> <crate> [--skip-suite] | --done
Writes <dir>/confirm.json."""
import json
import os
import re
import shutil
import subprocess
import sys

WT = "/tmp/seed/confirm"
ENV = dict(os.environ, CARGO_NET_OFFLINE="true", CARGO_BUILD_JOBS="10")
ENV.pop("RUSTFLAGS", None)


def sh(cmd, **kw):
    return subprocess.run(cmd, shell=True, cwd=WT, env=ENV, stdout=subprocess.PIPE, stderr=subprocess.STDOUT, text=True, **kw)


def main():
    if sys.argv[1] == "--done":
        subprocess.run(["git", "-C", "/repo", "worktree", "remove", "--force", WT])
        return
    d, dest, crate = sys.argv[1:4]
    d = os.path.abspath(d)
    if not os.path.isdir(WT):
        subprocess.run(["git", "-C", "/repo", "worktree", "add", "--detach", WT, "HEAD", "-q"], check=True)
    sh("git checkout -q --detach $(git -C /repo rev-parse HEAD) && git checkout -- . && git clean -fdq -e target")
    res = {"head": subprocess.run(["git", "-C", "/repo", "rev-parse", "--short", "HEAD"], stdout=subprocess.PIPE, text=True).stdout.strip()}
    p = sh("git apply %s/patch.diff" % d)
    res["applies"] = p.returncode == 0
    if p.returncode != 0:
        print(p.stdout)
        print(json.dumps(res))
        sys.exit(1)
    if "--skip-suite" not in sys.argv:
        p = sh("cargo nextest run --workspace --no-fail-fast --tool-config-file pb:/w/lib/nextest.toml --profile pb --test-threads 8 --offline 2>&1 | tail -40")
        m = re.search(r"(\d+) tests run: (\d+) passed(.*)", p.stdout)
        res["suite_with_change"] = m.group(0) if m else p.stdout[-600:]
        res["suite_ok"] = bool(m) and m.group(1) == m.group(2) and "failed" not in m.group(3)
    test = os.path.splitext(os.path.basename(dest))[0]
    os.makedirs(os.path.dirname(os.path.join(WT, dest)), exist_ok=True)
    demo = [f for f in os.listdir(d) if f.startswith("demo") and f.endswith(".rs")][0]
    shutil.copy(os.path.join(d, demo), os.path.join(WT, dest))
    cmd = "cargo test -p %s --test %s --offline 2>&1 | tail -60" % (crate, test)
    p = sh(cmd)
    res["demo_with_change"] = [l for l in p.stdout.splitlines() if l.startswith("test result") or "error" in l[:8]][:3]
    res["demo_fails_with_change"] = "test result: FAILED" in p.stdout
    sh("git apply -R %s/patch.diff" % d)
    p = sh(cmd)
    res["demo_without_change"] = [l for l in p.stdout.splitlines() if l.startswith("test result")][:3]
    res["demo_passes_without_change"] = "test result: ok" in p.stdout and "FAILED" not in p.stdout
    sh("git checkout -- . && git clean -fdq -e target")
    res["demo_cmd"] = "cp %s %s && cargo test -p %s --test %s --offline" % (demo, dest, crate, test)
    with open(os.path.join(d, "confirm.json"), "w") as f:
        json.dump(res, f, indent=1)
    print(json.dumps(res, indent=1))


main()
